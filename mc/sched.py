"""TS - controlled thread scheduler (DESIGN 1.4): real threading.Thread objects, exactly one runnable at a
time, baton passed with per-thread semaphores from a sys.settrace callback.  Scheduling points are `call`
events in frames whose code lives under <repo>/html5lib (optionally only functions named in `focus`).
Exploration is preemption-bounded and exhaustive within the bound.
"""
import os
import sys
import threading


class _Run(object):
    def __init__(self, bodies, plan, prefix, focus):
        self.bodies = bodies
        self.plan = list(plan)          # [(thread, quota or None)] : run `thread` for `quota` points, then switch
        self.seg = 0
        self.n = len(bodies)
        self.sem = [threading.Semaphore(0) for _ in bodies]
        self.done = [False] * self.n
        self.results = [None] * self.n
        self.points = [0] * self.n
        self.count_in_seg = 0
        self.finished = threading.Event()
        self.prefix = prefix
        self.focus = focus
        self.error = None

    # -- scheduling ------------------------------------------------------------------------------------
    def current(self):
        if self.seg < len(self.plan):
            return self.plan[self.seg][0]
        return None

    def next_runnable(self, after):
        for k in range(1, self.n + 1):
            j = (after + k) % self.n
            if not self.done[j]:
                return j
        return None

    def point(self, i):
        """called by thread i at each scheduling point"""
        self.points[i] += 1
        if self.seg < len(self.plan):
            t, quota = self.plan[self.seg]
            if t == i and quota is not None:
                self.count_in_seg += 1
                if self.count_in_seg >= quota:
                    self.seg += 1
                    self.count_in_seg = 0
                    nxt = self.plan[self.seg][0] if self.seg < len(self.plan) else self.next_runnable(i)
                    if nxt is not None and nxt != i and not self.done[nxt]:
                        self.sem[nxt].release()
                        self.sem[i].acquire()

    def thread_done(self, i):
        self.done[i] = True
        # advance the plan past segments of finished threads
        while self.seg < len(self.plan) and self.done[self.plan[self.seg][0]]:
            self.seg += 1
            self.count_in_seg = 0
        nxt = self.plan[self.seg][0] if self.seg < len(self.plan) else self.next_runnable(i)
        if nxt is None or self.done[nxt]:
            nxt = self.next_runnable(i)
        if nxt is None:
            self.finished.set()
        else:
            self.sem[nxt].release()

    # -- thread body -----------------------------------------------------------------------------------------
    def wrapper(self, i):
        prefix, focus = self.prefix, self.focus

        def tracer(frame, event, arg):
            if event == "call":
                code = frame.f_code
                if code.co_filename.startswith(prefix) and (focus is None or code.co_name in focus):
                    self.point(i)
            return None
        self.sem[i].acquire()
        sys.settrace(tracer)
        try:
            self.results[i] = self.bodies[i]()
        except BaseException as e:          # noqa
            self.results[i] = ("thread-raised", type(e).__name__, str(e)[:100])
        finally:
            sys.settrace(None)
            self.thread_done(i)

    def go(self):
        threads = [threading.Thread(target=self.wrapper, args=(i,)) for i in range(self.n)]
        for t in threads:
            t.daemon = True
            t.start()
        first = self.plan[0][0] if self.plan else 0
        self.sem[first].release()
        if not self.finished.wait(60):
            self.error = "deadlock-or-timeout"
        for t in threads:
            t.join(5)
        return self.results, list(self.points)


def run_plan(bodies, plan, repo, focus=None):
    prefix = os.path.join(os.path.realpath(repo), "html5lib") + os.sep
    r = _Run(bodies, plan, prefix, frozenset(focus) if focus else None)
    res, pts = r.go()
    if r.error:
        raise RuntimeError("scheduler: " + r.error)
    return tuple(res), pts


def explore(bodies, expected, bound=1, repo="/repo", focus=None, max_points=None):
    """all schedules of 2 threads with <= `bound` preemptions.  -> (number of schedules run, [(plan, observed)] that differ)"""
    assert len(bodies) == 2
    expected = tuple(expected)
    bad = []
    n = 0
    # solo point counts (also the two non-preemptive orders)
    solo = {}
    for f in (0, 1):
        res, pts = run_plan(bodies, [(f, None), (1 - f, None)], repo, focus)
        n += 1
        solo[f] = pts[f]
        if res != expected:
            bad.append(([[f, None], [1 - f, None]], res))

    def check(plan):
        res, pts = run_plan(bodies, plan, repo, focus)
        if res != expected:
            # believe a failure only if the same schedule fails twice with identical observations
            res2, _ = run_plan(bodies, plan, repo, focus)
            if res2 == res:
                bad.append(([list(p) for p in plan], res))
            else:
                raise RuntimeError("schedule %r is not reproducible: %r vs %r" % (plan, res, res2))
    for f in (0, 1):
        o = 1 - f
        for i in range(1, solo[f] + 1):
            if bound >= 1:
                check([(f, i), (o, None), (f, None)])
                n += 1
            if bound >= 2:
                for j in range(1, solo[o] + 1):
                    check([(f, i), (o, j), (f, None), (o, None)])
                    n += 1
            if bad and len(bad) > 3:
                return n, bad
    return n, bad
