"""Driving the real html5lib tokenizer / parser, including "suspension": a text source that delivers the
word in one read and then raises instead of signalling EOF, so that mid-input state can be inspected
without any hook in /repo (DESIGN section 2)."""
import copy
from collections import deque


class Suspend(Exception):
    pass


class SuspendSource(object):
    """file-like text source: read(0) -> '', first real read -> whole text, next read -> raises Suspend"""

    def __init__(self, text):
        self.text = text
        self.reads = 0

    def read(self, n=-1):
        if n == 0:
            return ""
        self.reads += 1
        if self.reads == 1 and self.text:
            return self.text
        raise Suspend()


STATE_ALIASES = {"data": "dataState", "rcdata": "rcdataState", "rawtext": "rawtextState",
                 "script_data": "scriptDataState", "plaintext": "plaintextState"}


class _Elt(object):
    def __init__(self, ns):
        self.namespace = ns


class _Tree(object):
    defaultNamespace = "http://www.w3.org/1999/xhtml"

    def __init__(self, foreign):
        self.openElements = [_Elt("http://www.w3.org/2000/svg" if foreign else self.defaultNamespace)]


class ParserStub(object):
    """What the tokenizer reads from its parser: only tree.openElements[-1].namespace (CDATA allowed?)"""

    def __init__(self, foreign):
        self.tree = _Tree(foreign)


def make_tokenizer(source, state="data", last=None, cdata=False):
    from html5lib._tokenizer import HTMLTokenizer
    tok = HTMLTokenizer(source, parser=ParserStub(cdata))
    tok.state = getattr(tok, STATE_ALIASES[state])
    if last is not None:
        tok.currentToken = {"type": "startTag", "name": last}
    return tok


def norm_token(token):
    """html5lib token dict -> the reference's tuple form (None for ParseError)"""
    ty = token["type"]
    if ty == 7:
        return None
    if ty in (1, 2):
        return ("Character", token["data"])
    if ty == 3:
        return ("StartTag", token["name"], list(token["data"].items()) if hasattr(token["data"], "items")
                else [tuple(x) for x in token["data"]], bool(token["selfClosing"]))
    if ty == 4:
        return ("EndTag", token["name"])
    if ty == 6:
        return ("Comment", token["data"])
    if ty == 0:
        return ("DOCTYPE", token["name"] or None, token["publicId"], token["systemId"], not token["correct"])
    return ("?", repr(token))


def concat(tokens):
    out = []
    for t in tokens:
        if t is None:
            continue
        if t[0] == "Character" and out and out[-1][0] == "Character":
            out[-1] = ("Character", out[-1][1] + t[1])
        else:
            out.append(t)
    return out


def impl_tokenize(text, state="data", last=None, cdata=False):
    """Complete tokenization with EOF by the real tokenizer -> normalised token list"""
    tok = make_tokenizer(text, state, last, cdata)
    return concat(norm_token(t) for t in tok)


_LIVE_NONE = frozenset(["dataState", "entityDataState", "tagOpenState", "closeTagOpenState",
                        "markupDeclarationOpenState", "plaintextState", "cdataSectionState",
                        "bogusCommentState"])


def _canon_current(state_name, tok):
    if tok is None:
        return None
    if state_name in _LIVE_NONE:
        return None
    low = state_name.lower()
    if "rcdata" in low or "rawtext" in low or "scriptdata" in low:
        return ("last", tok.get("name"))
    if tok.get("type") == 6:
        # comment under construction: its data is only ever appended to, and the data so far was compared
        # when this word was visited (EOF emits the unfinished comment)
        return ("comment",)
    d = tok.get("data")
    if isinstance(d, list):
        d = tuple(tuple(x) for x in d)
    elif hasattr(d, "items"):
        d = tuple(d.items())
    return (tok.get("type"), tok.get("name"), d, tok.get("selfClosing"), tok.get("publicId"), tok.get("systemId"),
            tok.get("correct"))


_TEXT_STOPS = {"dataState": "&<\x00", "rcdataState": "&<\x00", "rawtextState": "<\x00", "scriptDataState": "<\x00",
               "plaintextState": "\x00", "scriptDataEscapedState": "<-\x00", "cdataSectionState": "]",
               "commentState": "-\x00", "bogusCommentState": ">"}
_SPACE_SKIP = frozenset(["beforeAttributeNameState", "afterAttributeNameState", "beforeAttributeValueState"])


def _reads_temp(name):
    return "EndTagOpen" in name or "EndTagName" in name or "DoubleEscapeStart" in name or "DoubleEscapeEnd" in name


def _text_class(text):
    """Abstract a run of plain text to what tree construction can distinguish: non-whitespace runs -> "x",
    whitespace runs -> first character (LF kept, others as space) plus one more space if longer."""
    out = []
    i, n = 0, len(text)
    while i < n:
        ws = text[i] in "\t\n\x0c\r "
        j = i
        while j < n and (text[j] in "\t\n\x0c\r ") == ws:
            j += 1
        if ws:
            out.append("\n" if text[i] == "\n" else " ")
            if j - i > 1:
                out.append(" ")
        else:
            out.append("x")
        i = j
    return "".join(out)


_COMMENT_STATES = frozenset(["commentState", "bogusCommentState"])


def _canon_rest(name, rest, parser_ctx=False):
    """Drop the part of the unconsumed input whose only effect is already-compared output: plain text in
    the text-emitting states (the step restarts at the first character that can change the state) and
    skipped whitespace between attributes.  With a tree builder attached (parser_ctx) pending text has not
    been seen by tree construction yet, so it is abstracted to its class instead of dropped."""
    stops = _TEXT_STOPS.get(name)
    if stops is not None:
        i = 0
        while i < len(rest) and rest[i] not in stops:
            i += 1
        if parser_ctx and name not in _COMMENT_STATES:
            return _text_class(rest[:i]) + rest[i:]
        return rest[i:]
    if name in _SPACE_SKIP:
        return rest.lstrip("\t\n\x0c ")
    return rest


def impl_suspended_state(text, state="data", last=None, cdata=False):
    """State of the real tokenizer after consuming `text` with no EOF.
    -> (state name before the suspended step, canonical current token, temporaryBuffer, unconsumed suffix)
       or ("unavailable",) if the internals could not be read."""
    try:
        src = SuspendSource(text)
        tok = make_tokenizer(src, state, last, cdata)
        tok.tokenQueue = deque([])
        stream = tok.stream
        snap = None
        try:
            # prime the stream so that the first chunk is loaded before the first snapshot
            name = tok.state.__name__
            # (priming only suspends for an empty text or a lone CR / lead surrogate, which is held)
            snap = (name, _canon_current(name, tok.currentToken), None, text)
            c = stream.char()
            stream.unget(c)
            while True:
                rest = stream.chunk[stream.chunkOffset:]
                name = tok.state.__name__
                rest = _canon_rest(name, rest) + (stream._bufferedCharacter or "")
                snap = (name, _canon_current(name, tok.currentToken),
                        getattr(tok, "temporaryBuffer", None) if _reads_temp(name) else None,
                        rest)
                if not tok.state():
                    return ("eof?",)
                tok.tokenQueue.clear()
                del stream.errors[:]
        except Suspend:
            return snap
    except Exception as e:        # internals renamed by a refactor: never a violation
        return ("unavailable", type(e).__name__)


# ==================================================================================================
# parser suspension

def _make_snap_tokenizer():
    from html5lib import _tokenizer
    from html5lib.constants import tokenTypes

    class SnapTokenizer(_tokenizer.HTMLTokenizer):
        """Same loop as HTMLTokenizer.__iter__, but records a snapshot before every step.  Used ONLY to read
        a state key from a suspended parse; all oracle comparisons run the unmodified class."""

        def __iter__(self):
            self.tokenQueue = deque([])
            self._snap = None
            stream = self.stream
            c = stream.char()         # prime: load the first chunk before the first snapshot
            stream.unget(c)
            while True:
                name = self.state.__name__
                rest = _canon_rest(name, stream.chunk[stream.chunkOffset:], True) + (stream._bufferedCharacter or "")
                self._snap = (name, _canon_current(name, self.currentToken),
                              getattr(self, "temporaryBuffer", None) if _reads_temp(name) else None, rest)
                if not self.state():
                    break
                while self.stream.errors:
                    yield {"type": tokenTypes["ParseError"], "data": self.stream.errors.pop(0)}
                while self.tokenQueue:
                    yield self.tokenQueue.popleft()
    return SnapTokenizer


_SNAP_CLS = None
_TB_CACHE = {}


def suspended_parse(text, builder="dom", container=None, scripting=False, ns=True, builder_kwargs=None):
    """Run the real parser on `text` with no EOF.  -> (parser, tokenizer_snapshot) ; parser.tree etc. are live."""
    global _SNAP_CLS
    import html5lib
    from html5lib import _tokenizer, html5parser, treebuilders
    if _SNAP_CLS is None:
        _SNAP_CLS = _make_snap_tokenizer()
    k = (builder, tuple(sorted((builder_kwargs or {}).items())))
    if k not in _TB_CACHE:
        _TB_CACHE[k] = treebuilders.getTreeBuilder(builder, **(builder_kwargs or {}))
    p = html5parser.HTMLParser(_TB_CACHE[k], namespaceHTMLElements=ns)
    src = SuspendSource(text)
    class _Shim(object):       # what html5parser sees as its `_tokenizer` module during this call
        HTMLTokenizer = _SNAP_CLS
    orig = html5parser._tokenizer
    html5parser._tokenizer = _Shim
    try:
        try:
            if container is None:
                p.parse(src, scripting=scripting)
            else:
                p.parseFragment(src, container=container, scripting=scripting)
        except Suspend:
            pass
        else:
            raise RuntimeError("parse finished although the source never signalled EOF")
    finally:
        html5parser._tokenizer = orig
    snap = getattr(p.tokenizer, "_snap", None)
    if snap is None:
        # suspended inside the very first read (empty text / lone CR): nothing consumed
        name = p.tokenizer.state.__name__
        snap = (name, None, None, text)
    return p, snap


def _dom_live_key(p):
    """closed-subtree skeleton of the dom builder's tree + stacks (DESIGN 3.3)"""
    tree = p.tree
    stack = list(tree.openElements)
    live = {}
    for i, n in enumerate(stack):
        live[id(n.element)] = ("S", i)
    hp = tree.headPointer
    if hp is not None and id(hp.element) not in live:
        live[id(hp.element)] = ("H", 0)
    # ancestors of live nodes are live as well
    for n in list(stack) + ([hp] if hp is not None else []):
        e = n.element.parentNode
        while e is not None and e.nodeType == 1:
            if id(e) not in live:
                live[id(e)] = ("A", 0)
            e = e.parentNode

    def skel(e):
        kids = []
        run = None
        for c in e.childNodes:
            if c.nodeType == 1 and id(c) in live:
                if run is not None:
                    kids.append(run)
                    run = None
                kids.append(node(c))
            else:
                run = {3: "T", 1: "E", 8: "C", 10: "D"}.get(c.nodeType, "?")
        if run is not None:
            kids.append(run)
        return tuple(kids)

    def node(e):
        attrs = []
        am = e.attributes
        for i in range(am.length):
            a = am.item(i)
            attrs.append((a.namespaceURI, a.name, a.value))
        return (live[id(e)], e.namespaceURI, e.tagName, tuple(attrs), skel(e))

    root = tree.dom
    top = skel(root)
    # stack elements that are not attached under the document (should not happen) are listed separately
    detached = []
    for n in stack:
        e = n.element
        while e.parentNode is not None:
            e = e.parentNode
        if e is not root and e.nodeType != 9:
            detached.append(node(n.element) if n.element.parentNode is None else ("in-detached", n.name))
    afe = []
    for x in tree.activeFormattingElements:
        if x is None:
            afe.append("marker")
        elif x in stack:
            afe.append(("S", stack.index(x)))
        else:
            am = x.element.attributes
            afe.append(("closed", x.namespace, x.name, tuple((am.item(i).namespaceURI, am.item(i).name, am.item(i).value)
                                                            for i in range(am.length))))
    fp = tree.formPointer
    form = None if fp is None else (("S", stack.index(fp)) if fp in stack else "closed")
    head = None if hp is None else (("S", stack.index(hp)) if hp in stack else "H")
    return (top, tuple(detached), tuple(afe), form, head)


_KEYED_ELSEWHERE = frozenset(["tree", "errors", "phases", "tokenizer", "log", "phase", "strict", "debug", "scripting", "container",
                              "innerHTMLMode", "innerHTML", "framesetOK", "compatMode", "dropNextNewline", "parser",
                              "openElements", "activeFormattingElements", "dom", "document", "headPointer", "formPointer",
                              "defaultNamespace", "characterTokens", "originalPhase"])


def _plain_attrs(o, names):
    """every attribute of a parser / tree builder / phase object that is a plain value (or a phase, or a bound method
    standing for a mode switch) and is not already part of the key: state that a future version of the code may add is
    picked up without the harness knowing its name"""
    out = []
    for k in sorted(names):
        if k in _KEYED_ELSEWHERE or "__" in k:
            continue
        try:
            v = getattr(o, k)
        except AttributeError:
            continue
        if isinstance(v, (bool, int, str, type(None))):
            out.append((k, v))
        elif type(v).__name__.endswith("Phase"):
            out.append((k, type(v).__name__))
        elif callable(v) and hasattr(v, "__name__"):
            out.append((k, v.__name__))
    return tuple(out)


def _slots(o):
    names = []
    for c in type(o).__mro__:
        names += list(getattr(c, "__slots__", ()))
    names += list(getattr(o, "__dict__", {}))
    return names


def hidden_state(p):
    return (_plain_attrs(p, _slots(p)), _plain_attrs(p.tree, _slots(p.tree)),
            tuple((n, a) for n, a in ((n, _plain_attrs(ph, _slots(ph))) for n, ph in sorted(p.phases.items())) if a))


def parser_key(p, snap):
    """canonical state of a suspended parser (dom builder).  ("unavailable", ...) if internals moved."""
    try:
        phases = p.phases
        itt = phases["inTableText"]
        body = phases["inBody"]
        misc = (
            p.phase.__class__.__name__,
            getattr(p, "originalPhase", None).__class__.__name__ if p.phase.__class__.__name__ == "TextPhase" else None,
            (itt.originalPhase.__class__.__name__, _text_class("".join(t["data"] for t in itt.characterTokens)))
            if p.phase is itt else None,
            body.processSpaceCharacters.__name__,
            p.framesetOK, p.compatMode, bool(p.innerHTML) and p.innerHTML,
            getattr(p.tree, "insertFromTable", None),
            getattr(p, "dropNextNewline", None),
            hidden_state(p),
        )
        return (misc, _dom_live_key(p), snap)
    except Exception as e:
        return ("unavailable", type(e).__name__, str(e)[:80])
