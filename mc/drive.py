"""Driving the real html5lib tokenizer / parser, including "suspension": a text source that delivers the
word in one read and then raises instead of signalling EOF, so that mid-input state can be inspected
without any hook in /repo (DESIGN section 2)."""
import copy
from collections import deque


class Suspend(Exception):
    pass


class SuspendSource(object):
    """file-like text source: read(0) -> '', first real read -> whole text, next read -> raises Suspend"""

    def __init__(self, text):
        self.text = text
        self.reads = 0

    def read(self, n=-1):
        if n == 0:
            return ""
        self.reads += 1
        if self.reads == 1 and self.text:
            return self.text
        raise Suspend()


STATE_ALIASES = {"data": "dataState", "rcdata": "rcdataState", "rawtext": "rawtextState",
                 "script_data": "scriptDataState", "plaintext": "plaintextState"}


class _Elt(object):
    def __init__(self, ns):
        self.namespace = ns


class _Tree(object):
    defaultNamespace = "http://www.w3.org/1999/xhtml"

    def __init__(self, foreign):
        self.openElements = [_Elt("http://www.w3.org/2000/svg" if foreign else self.defaultNamespace)]


class ParserStub(object):
    """What the tokenizer reads from its parser: only tree.openElements[-1].namespace (CDATA allowed?)"""

    def __init__(self, foreign):
        self.tree = _Tree(foreign)


def make_tokenizer(source, state="data", last=None, cdata=False):
    from html5lib._tokenizer import HTMLTokenizer
    tok = HTMLTokenizer(source, parser=ParserStub(cdata))
    tok.state = getattr(tok, STATE_ALIASES[state])
    if last is not None:
        tok.currentToken = {"type": "startTag", "name": last}
    return tok


def norm_token(token):
    """html5lib token dict -> the reference's tuple form (None for ParseError)"""
    ty = token["type"]
    if ty == 7:
        return None
    if ty in (1, 2):
        return ("Character", token["data"])
    if ty == 3:
        return ("StartTag", token["name"], list(token["data"].items()) if hasattr(token["data"], "items")
                else [tuple(x) for x in token["data"]], bool(token["selfClosing"]))
    if ty == 4:
        return ("EndTag", token["name"])
    if ty == 6:
        return ("Comment", token["data"])
    if ty == 0:
        return ("DOCTYPE", token["name"] or None, token["publicId"], token["systemId"], not token["correct"])
    return ("?", repr(token))


def concat(tokens):
    out = []
    for t in tokens:
        if t is None:
            continue
        if t[0] == "Character" and out and out[-1][0] == "Character":
            out[-1] = ("Character", out[-1][1] + t[1])
        else:
            out.append(t)
    return out


def impl_tokenize(text, state="data", last=None, cdata=False):
    """Complete tokenization with EOF by the real tokenizer -> normalised token list"""
    tok = make_tokenizer(text, state, last, cdata)
    return concat(norm_token(t) for t in tok)


_LIVE_NONE = frozenset(["dataState", "entityDataState", "tagOpenState", "closeTagOpenState",
                        "markupDeclarationOpenState", "plaintextState", "cdataSectionState",
                        "bogusCommentState"])


def _canon_current(state_name, tok):
    if tok is None:
        return None
    if state_name in _LIVE_NONE:
        return None
    low = state_name.lower()
    if "rcdata" in low or "rawtext" in low or "scriptdata" in low:
        return ("last", tok.get("name"))
    if tok.get("type") == 6:
        # comment under construction: its data is only ever appended to, and the data so far was compared
        # when this word was visited (EOF emits the unfinished comment)
        return ("comment",)
    d = tok.get("data")
    if isinstance(d, list):
        d = tuple(tuple(x) for x in d)
    elif hasattr(d, "items"):
        d = tuple(d.items())
    return (tok.get("type"), tok.get("name"), d, tok.get("selfClosing"), tok.get("publicId"), tok.get("systemId"),
            tok.get("correct"))


_TEXT_STOPS = {"dataState": "&<\x00", "rcdataState": "&<\x00", "rawtextState": "<\x00", "scriptDataState": "<\x00",
               "plaintextState": "\x00", "scriptDataEscapedState": "<-\x00", "cdataSectionState": "]",
               "commentState": "-\x00", "bogusCommentState": ">"}
_SPACE_SKIP = frozenset(["beforeAttributeNameState", "afterAttributeNameState", "beforeAttributeValueState"])


def _reads_temp(name):
    return "EndTagOpen" in name or "EndTagName" in name or "DoubleEscapeStart" in name or "DoubleEscapeEnd" in name


def _canon_rest(name, rest):
    """Drop the part of the unconsumed input whose only effect is already-compared output: plain text in
    the text-emitting states (the step restarts at the first character that can change the state) and
    skipped whitespace between attributes."""
    stops = _TEXT_STOPS.get(name)
    if stops is not None:
        i = 0
        while i < len(rest) and rest[i] not in stops:
            i += 1
        return rest[i:]
    if name in _SPACE_SKIP:
        return rest.lstrip("\t\n\x0c ")
    return rest


def impl_suspended_state(text, state="data", last=None, cdata=False):
    """State of the real tokenizer after consuming `text` with no EOF.
    -> (state name before the suspended step, canonical current token, temporaryBuffer, unconsumed suffix)
       or ("unavailable",) if the internals could not be read."""
    try:
        src = SuspendSource(text)
        tok = make_tokenizer(src, state, last, cdata)
        tok.tokenQueue = deque([])
        stream = tok.stream
        snap = None
        try:
            # prime the stream so that the first chunk is loaded before the first snapshot
            name = tok.state.__name__
            # (priming only suspends for an empty text or a lone CR / lead surrogate, which is held)
            snap = (name, _canon_current(name, tok.currentToken), None, text)
            c = stream.char()
            stream.unget(c)
            while True:
                rest = stream.chunk[stream.chunkOffset:]
                name = tok.state.__name__
                rest = _canon_rest(name, rest) + (stream._bufferedCharacter or "")
                snap = (name, _canon_current(name, tok.currentToken),
                        getattr(tok, "temporaryBuffer", None) if _reads_temp(name) else None,
                        rest)
                if not tok.state():
                    return ("eof?",)
                tok.tokenQueue.clear()
                del stream.errors[:]
        except Suspend:
            return snap
    except Exception as e:        # internals renamed by a refactor: never a violation
        return ("unavailable", type(e).__name__)
