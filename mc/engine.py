"""Core of the hand-written explorer: worker pool, product BFS, flat enumeration,
evidence / replay / known-finding bookkeeping.

All checks execute the real html5lib imported from $VERIF_REPO (default /repo).
Nothing here is random: VERIF_SEED only rotates which explored cases are
written out as samples.
"""
from __future__ import annotations

import hashlib
import itertools
import json
import multiprocessing
import os
import signal
import sys
import time
import traceback

VERIF_DIR = os.path.dirname(os.path.dirname(os.path.abspath(__file__)))
REPO = os.environ.get("VERIF_REPO", "/repo")
NWORKERS = int(os.environ.get("VERIF_WORKERS", "0")) or min(16, os.cpu_count() or 1)


def use_repo():
    """Make `import html5lib` resolve to the tree under test."""
    if REPO not in sys.path:
        sys.path.insert(0, REPO)
    # hooks guard (no guarded code exists today; set for interface completeness)
    os.environ.setdefault("HTML5LIB_VERIF", "1")
    import html5lib  # noqa
    p = os.path.realpath(os.path.dirname(html5lib.__file__))
    want = os.path.realpath(os.path.join(REPO, "html5lib"))
    if p != want:
        raise RuntimeError("html5lib imported from %s, expected %s" % (p, want))
    return html5lib


def digest(obj) -> str:
    return hashlib.blake2b(repr(obj).encode("utf-8", "surrogatepass"), digest_size=12).hexdigest()


def jsonable(x):
    """Best-effort conversion of observations to something JSON can hold."""
    if isinstance(x, (str, int, float, bool)) or x is None:
        if isinstance(x, str):
            try:
                x.encode("utf-8")
            except UnicodeEncodeError:
                return {"__surrogate_str__": x.encode("utf-8", "surrogatepass").hex()}
        return x
    if isinstance(x, bytes):
        return {"__bytes__": x.hex()}
    if isinstance(x, (list, tuple)):
        return [jsonable(i) for i in x]
    if isinstance(x, (set, frozenset)):
        return sorted((jsonable(i) for i in x), key=repr)
    if isinstance(x, dict):
        return {str(k): jsonable(v) for k, v in x.items()}
    return repr(x)


def unjson(x):
    if isinstance(x, dict):
        if "__bytes__" in x and len(x) == 1:
            return bytes.fromhex(x["__bytes__"])
        if "__surrogate_str__" in x and len(x) == 1:
            return bytes.fromhex(x["__surrogate_str__"]).decode("utf-8", "surrogatepass")
        return {k: unjson(v) for k, v in x.items()}
    if isinstance(x, list):
        return [unjson(i) for i in x]
    return x


# --------------------------------------------------------------------------------------------
# worker pool

_POOL = None


def pool():
    global _POOL
    if _POOL is None:
        ctx = multiprocessing.get_context("fork")
        _POOL = ctx.Pool(NWORKERS)
    return _POOL


def close_pool():
    global _POOL
    if _POOL is not None:
        _POOL.close()
        _POOL.join()
        _POOL = None


def pmap(fn, items, chunksize=None):
    """Ordered parallel map over a list (deterministic result order)."""
    items = list(items)
    if not items:
        return []
    if NWORKERS <= 1 or len(items) == 1:
        return [fn(i) for i in items]
    if chunksize is None:
        chunksize = max(1, min(256, len(items) // (NWORKERS * 8) or 1))
    return pool().map(fn, items, chunksize)


def pimap(fn, items, chunksize=1):
    items = list(items)
    if NWORKERS <= 1:
        for i in items:
            yield fn(i)
        return
    for r in pool().imap(fn, items, chunksize):
        yield r


# --------------------------------------------------------------------------------------------
# a check run: counters, samples, violations, evidence

class Violation(object):
    def __init__(self, harness, config, case, expected, actual, what="", diff_class=""):
        self.harness = harness
        self.config = config
        self.case = case
        self.expected = expected
        self.actual = actual
        self.what = what
        self.diff_class = diff_class

    def to_json(self):
        return {"harness": self.harness, "config": jsonable(self.config), "case": jsonable(self.case),
                "expected": jsonable(self.expected), "actual": jsonable(self.actual),
                "what": self.what, "diff_class": self.diff_class}


def load_known():
    path = os.path.join(VERIF_DIR, "known_findings.json")
    if not os.path.exists(path):
        return []
    with open(path) as f:
        return json.load(f).get("findings", [])


def _sig_match(sig, v):
    """Narrow syntactic signature match (see DESIGN App. B)."""
    case = v["case"]
    flat = json.dumps(case, sort_keys=True, ensure_ascii=True)
    for s in sig.get("case_contains_all", []):
        if json.dumps(s, ensure_ascii=True)[1:-1] not in flat:
            return False
    anyl = sig.get("case_contains_any")
    if anyl and not any(json.dumps(s, ensure_ascii=True)[1:-1] in flat for s in anyl):
        return False
    for s in sig.get("case_contains_none", []):
        if json.dumps(s, ensure_ascii=True)[1:-1] in flat:
            return False
    if "diff_class" in sig and sig["diff_class"] != v.get("diff_class"):
        return False
    if "diff_class_prefix" in sig and not str(v.get("diff_class", "")).startswith(sig["diff_class_prefix"]):
        return False
    cfg = sig.get("config")
    if cfg:
        vc = v.get("config") or {}
        for k, val in cfg.items():
            if vc.get(k) != val:
                return False
    return True


def match_known(known, pid, vj):
    for k in known:
        if k.get("property") != pid or k.get("status", "open") != "open":
            continue
        if k.get("harness") and k["harness"] != vj["harness"]:
            continue
        if "signature" in k:
            # the signature alone decides (a `case` next to it is the documented witness, not a matcher: the same
            # input can fail for another reason under another configuration)
            if _sig_match(k["signature"], vj):
                return k
        elif "case" in k and k["case"] == vj["case"] and ("config" not in k or k["config"] == vj["config"]):
            return k
    return None


class Run(object):
    def __init__(self, pid, tier, seed):
        self.pid = pid
        self.tier = tier
        self.seed = seed
        self.t0 = time.time()
        self.cov = {}
        self.samples = []
        self.violations = []
        self.assumptions = []
        self.notes = []
        self._nsample = 0

    # counters -------------------------------------------------------------------------
    def add(self, key, n=1):
        self.cov[key] = self.cov.get(key, 0) + n

    def set(self, key, val):
        self.cov[key] = val

    def sample(self, case, every=1):
        """Keep a bounded, seed-rotated selection of explored cases."""
        self._nsample += 1
        if len(self.samples) < 12:
            self.samples.append(jsonable(case))
        elif (self._nsample + self.seed) % 9973 == 0 and len(self.samples) < 40:
            self.samples.append(jsonable(case))

    def violation(self, v):
        self.violations.append(v)

    # finishing ------------------------------------------------------------------------
    def finish(self, level, extra=None):
        known = load_known()
        new, reported = [], {}
        for v in self.violations:
            vj = v.to_json()
            k = match_known(known, self.pid, vj)
            if k is not None:
                reported.setdefault(k["id"], [k, 0, vj])
                reported[k["id"]][1] += 1
            else:
                new.append(vj)
        cov = dict(self.cov)
        if extra:
            cov.update(extra)
        if self.seed and len(self.samples) > 1:
            r = self.seed % len(self.samples)
            self.samples = self.samples[r:] + self.samples[:r]
        cov["samples"] = self.samples[:40]
        cov["known_findings_reported"] = {kid: n for kid, (k, n, _) in reported.items()}
        if self.notes:
            cov["notes"] = self.notes
        ev = {"property_id": self.pid, "tier": self.tier, "seed": self.seed, "level": level,
              "coverage": cov, "assumptions": self.assumptions,
              "wall_s": round(time.time() - self.t0, 2), "violations": len(new),
              "repo": REPO}
        os.makedirs(os.path.join(VERIF_DIR, "evidence"), exist_ok=True)
        evpath = os.path.join(VERIF_DIR, "evidence", "%s.json" % self.pid)
        with open(evpath, "w") as f:
            json.dump(ev, f, indent=1, sort_keys=True)
            f.write("\n")
        for kid, (k, n, vj) in sorted(reported.items()):
            print("KNOWN-FINDING: property=%s %s: %s (%d explored cases)" % (self.pid, kid, k.get("what", ""), n))
        # one replay file per distinct diff class (at most 10), shortest case first
        seen_classes = {}
        for vj in new:
            key = (vj["harness"], vj.get("diff_class", ""))
            if key not in seen_classes:
                seen_classes[key] = vj
        out = 0
        for key, vj in list(seen_classes.items())[:10]:
            rp = write_replay(self.pid, self.tier, vj)
            print("VIOLATION property=%s replay=%s" % (self.pid, rp))
            print("  harness=%s what=%s" % (vj["harness"], vj["what"][:300]))
            print("  case=%s" % json.dumps(vj["case"])[:400])
            out += 1
        if os.environ.get("VERIF_VERBOSE"):
            for key, vj in seen_classes.items():
                print("  CLASS %s | %s | %s" % (key[1], vj["what"][:150], json.dumps(vj["case"])[:300]))
        summary = {k: v for k, v in cov.items() if isinstance(v, (int, float, bool))}
        print("%s tier=%s %s wall=%.1fs violations=%d (classes=%d) known=%d" % (
            self.pid, self.tier, json.dumps(summary, sort_keys=True), time.time() - self.t0,
            len(new), len(seen_classes), len(reported)))
        sys.stdout.flush()
        close_pool()
        return 1 if new else 0


def write_replay(pid, tier, vj):
    d = os.path.join(VERIF_DIR, "replays", pid)
    os.makedirs(d, exist_ok=True)
    body = dict(vj)
    body["property"] = pid
    body["tier"] = tier
    sha = digest((body["harness"], body["config"], body["case"]))
    path = os.path.join(d, "%s.json" % sha)
    with open(path, "w") as f:
        json.dump(body, f, indent=1, sort_keys=True)
        f.write("\n")
    return path


# --------------------------------------------------------------------------------------------
# PB: level-synchronous product BFS

class BFSResult(object):
    def __init__(self):
        self.states = 0
        self.transitions = 0
        self.pruned = 0
        self.bisim_checks = 0
        self.bisim_failures = 0
        self.depth_completed = 0
        self.capped = False
        self.obs = set()
        self.violations = []
        self.level_sizes = []
        self.bisim_examples = []


class StepTimeout(BaseException):
    """raised by time_limit; a BaseException so that a step's own `except Exception` cannot swallow it"""


class time_limit(object):
    """with time_limit(seconds, exc): ...   raises exc() in the main thread when the body runs too long.
    Nests: leaving an inner limit re-arms what is left of the outer one."""

    def __init__(self, seconds, exc=StepTimeout):
        self.seconds = seconds
        self.exc = exc

    def _handler(self, signum, frame):
        raise self.exc()

    def __enter__(self):
        self.old_handler = signal.signal(signal.SIGALRM, self._handler)
        self.t0 = time.time()
        self.old_delay = signal.setitimer(signal.ITIMER_REAL, self.seconds)[0]
        return self

    def __exit__(self, *a):
        signal.setitimer(signal.ITIMER_REAL, 0)
        signal.signal(signal.SIGALRM, self.old_handler)
        if self.old_delay:
            signal.setitimer(signal.ITIMER_REAL, max(0.001, self.old_delay - (time.time() - self.t0)))
        return False


STEP_LIMIT = float(os.environ.get("VERIF_STEP_LIMIT", "120"))


def guarded_step(step, ctx, w):
    """one BFS step under a watchdog: a step that does not come back is a violation (the parse or pipeline it
    drives loops), reported with the word so that it can be replayed; all such states are merged (no successors
    of a hung execution are worth exploring more than once)."""
    try:
        with time_limit(STEP_LIMIT):
            return step(w) if ctx is None else step(ctx, w)
    except StepTimeout:
        v = Violation("engine.step", {"module": step.__module__, "step": step.__name__, "ctx": ctx}, list(w),
                      "the step returns", "no result after %d s" % STEP_LIMIT,
                      "exploring this word did not terminate within %d s (the parse or pipeline it drives loops)" % STEP_LIMIT,
                      "nontermination")
        return (("nontermination",), "nontermination", v)


def replay_step(config, case):
    import importlib
    step = getattr(importlib.import_module(config["module"]), config["step"])
    ctx = config.get("ctx")
    if isinstance(ctx, list):
        ctx = tuple(ctx)
    r = guarded_step(step, ctx, tuple(case))
    return r[2] if r[0] == ("nontermination",) else None


def key_digest(k) -> bytes:
    """96-bit digest of a state key: what the BFS stores and what workers send back (full keys are kilobytes of
    nested tuples; 16 M of them do not fit in memory, and a collision at 2^-96 per pair is not a concern)"""
    return hashlib.blake2b(repr(k).encode("utf-8", "surrogatepass"), digest_size=12).digest()


def _bfs_expand(task):
    """Worker: run every one-letter extension of `word`.
    returns list of (key, obs_digest, violation_or_None)"""
    step, ctx, nletters, word = task
    out = []
    for a in range(nletters):
        w = word + (a,)
        try:
            r = guarded_step(step, ctx, w)
            r = (key_digest(r[0]), r[1], r[2])
        except Exception:  # harness bug: surface loudly, never as a VIOLATION
            raise RuntimeError("harness error on word %r ctx %r:\n%s" % (w, ctx, traceback.format_exc()))
        out.append(r)
    return out


def product_bfs(step, nletters, depth, init_words=((),), max_transitions=None, bisim_depth=0,
                on_progress=None, ctx=None):
    """Explicit-state BFS.  step([ctx,] word: tuple[int]) -> (key, obs_digest, violation|None).
    `step` must be a module-level function (it is sent to the worker pool by name); `ctx` is a small
    picklable value handed to every call.

    `key` must contain the canonical implementation state AND the canonical reference state
    (see DESIGN 1.1).  Words whose key was already seen are not extended.  For pruned words at
    depth <= bisim_depth, the one-step bisimulation check of the key is run too."""
    res = BFSResult()
    seen = {}
    frontier = []
    for w in init_words:
        k, o, v = guarded_step(step, ctx, tuple(w))
        k = key_digest(k)
        res.transitions += 1
        res.obs.add(o)
        if v is not None:
            res.violations.append(v)
        if k not in seen:
            seen[k] = tuple(w)
            frontier.append(tuple(w))
    succ_keys = {}   # representative word -> tuple of successor keys (for bisimulation check)
    pruned_for_bisim = []
    for d in range(1, depth + 1):
        if not frontier:
            res.depth_completed = depth
            break
        if max_transitions is not None and res.transitions + len(frontier) * nletters > max_transitions:
            res.capped = True
            break
        nxt = []
        results = pmap(_bfs_expand, [(step, ctx, nletters, w) for w in frontier])
        for w, rs in zip(frontier, results):
            if d <= bisim_depth + 1:
                succ_keys[w] = tuple(r[0] for r in rs)
            for a, (k, o, v) in enumerate(rs):
                res.transitions += 1
                res.obs.add(o)
                if v is not None:
                    res.violations.append(v)
                if k in seen:
                    res.pruned += 1
                    if d <= bisim_depth:
                        pruned_for_bisim.append((w + (a,), seen[k]))
                else:
                    seen[k] = w + (a,)
                    nxt.append(w + (a,))
        res.level_sizes.append(len(nxt))
        frontier = nxt
        res.depth_completed = d
        if on_progress:
            on_progress(d, len(seen), res.transitions)
    # one-step bisimulation check of the abstraction on pruned words
    if pruned_for_bisim:
        todo = [p for p in pruned_for_bisim if p[1] in succ_keys]
        results = pmap(_bfs_expand, [(step, ctx, nletters, p[0]) for p in todo])
        for (pw, rep), rs in zip(todo, results):
            res.bisim_checks += 1
            res.transitions += len(rs)
            for (k, o, v) in rs:
                res.obs.add(o)
                if v is not None:
                    res.violations.append(v)
            if tuple(r[0] for r in rs) != succ_keys[rep]:
                res.bisim_failures += 1
                if len(res.bisim_examples) < 5:
                    res.bisim_examples.append((pw, rep))
    res.states = len(seen)
    return res


def all_words(nletters, maxlen, minlen=0):
    for n in range(minlen, maxlen + 1):
        for w in itertools.product(range(nletters), repeat=n):
            yield w


def shard_words(nletters, maxlen, prefix_len=2):
    """Split the space of all words of length <= maxlen into shards by prefix."""
    shards = []
    for n in range(0, min(prefix_len, maxlen + 1)):
        shards.append(("exact", tuple(), n))
    if maxlen >= prefix_len:
        for p in itertools.product(range(nletters), repeat=prefix_len):
            shards.append(("prefix", p, maxlen))
    return shards


def words_of_shard(shard, nletters):
    kind, p, n = shard
    if kind == "exact":
        for w in itertools.product(range(nletters), repeat=n):
            yield w
    else:
        for m in range(0, n - len(p) + 1):
            for s in itertools.product(range(nletters), repeat=m):
                yield p + s
