"""Canonical trees by direct traversal of html5lib's results (never through its walkers or testSerializer).

Canonical node forms (nested tuples):
   ("doctype", name, public, system)          absent identifiers as ""
   ("comment", data)
   ("text", data)                             adjacent text nodes merged, empty text dropped
   ("elem", namespace, name, attrs, children) attrs = tuple of ((ns, local), value) in tree order
A document / fragment is a tuple of nodes.
"""
import re
from xml.dom import Node

HTML_NS = "http://www.w3.org/1999/xhtml"
_TAG = re.compile(r"^\{([^}]*)\}(.*)$", re.S)


def _merge(children):
    out = []
    for c in children:
        if c[0] == "text":
            if c[1] == "":
                continue
            if out and out[-1][0] == "text":
                out[-1] = ("text", out[-1][1] + c[1])
                continue
        out.append(c)
    return tuple(out)


# ---- minidom -------------------------------------------------------------------------------------

def canon_dom(node):
    """node: minidom Document, DocumentFragment or Element -> tuple of canonical children (or one element)"""
    if node.nodeType in (Node.DOCUMENT_NODE, Node.DOCUMENT_FRAGMENT_NODE):
        return _merge(_dom_node(c) for c in node.childNodes)
    return _dom_node(node)


def _dom_node(n):
    t = n.nodeType
    if t == Node.TEXT_NODE:
        return ("text", n.data)
    if t == Node.COMMENT_NODE:
        return ("comment", n.data)
    if t == Node.DOCUMENT_TYPE_NODE:
        return ("doctype", n.name or "", n.publicId or "", n.systemId or "")
    if t == Node.ELEMENT_NODE:
        attrs = []
        am = n.attributes
        for i in range(am.length):
            a = am.item(i)
            if a.namespaceURI:
                attrs.append(((a.namespaceURI, a.localName), a.value))
            else:
                attrs.append(((None, a.name), a.value))
        return ("elem", n.namespaceURI or None, n.tagName, tuple(attrs), _merge(_dom_node(c) for c in n.childNodes))
    return ("other", t)


# ---- ElementTree ---------------------------------------------------------------------------------

def _split(tag):
    m = _TAG.match(tag)
    if m:
        return m.group(1), m.group(2)
    return None, tag


def _et_children(e):
    out = []
    if e.text:
        out.append(("text", e.text))
    for c in e:
        out.append(_et_node(c))
        if c.tail:
            out.append(("text", c.tail))
    return _merge(out)


def _et_node(e):
    tag = e.tag
    if not isinstance(tag, str):          # Comment factory function (or ProcessingInstruction)
        return ("comment", e.text or "")
    if tag == "<!DOCTYPE>":
        return ("doctype", e.text or "", e.get("publicId") or "", e.get("systemId") or "")
    ns, name = _split(tag)
    attrs = tuple((_split(k), v) for k, v in e.attrib.items())
    return ("elem", ns, name, attrs, _et_children(e))


def canon_etree(e):
    """e: DOCUMENT_ROOT / DOCUMENT_FRAGMENT element -> tuple of children; any other element -> one node"""
    if e.tag in ("DOCUMENT_ROOT", "DOCUMENT_FRAGMENT"):
        return _et_children(e)
    return _et_node(e)


# ---- normalisations --------------------------------------------------------------------------------

def sort_attrs(tree):
    """attribute order ignored (compared as a mapping)"""
    if isinstance(tree, tuple) and tree and tree[0] == "elem":
        return ("elem", tree[1], tree[2], tuple(sorted(tree[3], key=repr)), tuple(sort_attrs(c) for c in tree[4]))
    if isinstance(tree, tuple) and tree and isinstance(tree[0], tuple):
        return tuple(sort_attrs(c) for c in tree)
    if tree == ():
        return tree
    return tree


def html_ns(tree):
    """map 'no namespace' to the HTML namespace (namespaceHTMLElements=False results)"""
    if isinstance(tree, tuple) and tree and tree[0] == "elem":
        return ("elem", tree[1] or HTML_NS, tree[2], tree[3], tuple(html_ns(c) for c in tree[4]))
    if isinstance(tree, tuple) and tree and isinstance(tree[0], tuple):
        return tuple(html_ns(c) for c in tree)
    return tree


def find_html(doc_children):
    for c in doc_children:
        if c[0] == "elem" and c[2] == "html":
            return c
    return None


def pretty(tree, indent=0, out=None):
    top = out is None
    if out is None:
        out = []
    if isinstance(tree, tuple) and tree and isinstance(tree[0], tuple):
        for c in tree:
            pretty(c, indent, out)
    elif tree:
        if tree[0] == "elem":
            ns = {HTML_NS: "", "http://www.w3.org/2000/svg": "svg ", "http://www.w3.org/1998/Math/MathML": "math ",
                  None: "(none) "}.get(tree[1], "{%s}" % tree[1])
            out.append("%s<%s%s%s>" % (" " * indent, ns, tree[2],
                                       "".join(" %s%s=%r" % ((k[0] + " ") if k[0] else "", k[1], v) for k, v in tree[3])))
            pretty(tree[4], indent + 2, out)
        else:
            out.append("%s%s" % (" " * indent, repr(tree)))
    if top:
        return "\n".join(out)
