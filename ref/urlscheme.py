"""Scheme of a URL the way a browser's URL parser (WHATWG URL standard) extracts it from an attribute value:
strip leading and trailing C0 control or space, remove ASCII tab / LF / CR anywhere, then an ASCII alpha
followed by ASCII alphanumerics, '+', '-' or '.', up to ':'.  Lower-cased.  None if the value has no scheme."""

ALPHA = "abcdefghijklmnopqrstuvwxyzABCDEFGHIJKLMNOPQRSTUVWXYZ"
REST = ALPHA + "0123456789+-."


def clean(value):
    i, j = 0, len(value)
    while i < j and ord(value[i]) <= 0x20:
        i += 1
    while j > i and ord(value[j - 1]) <= 0x20:
        j -= 1
    return value[i:j].replace("\t", "").replace("\n", "").replace("\r", "")


def scheme(value):
    v = clean(value)
    if not v or v[0] not in ALPHA:
        return None
    k = 1
    while k < len(v) and v[k] in REST:
        k += 1
    if k < len(v) and v[k] == ":":
        return v[:k].lower()
    return None


def data_media_type(value):
    """for a data: URL -> the media type essence (lower-cased, '' if omitted)"""
    v = clean(value)
    body = v[v.index(":") + 1:]
    head = body.split(",", 1)[0]
    mt = head.split(";", 1)[0].strip().lower()
    return mt
