"""Reference for "prescan a byte stream to determine its encoding" and "extracting a character encoding
from a meta element" (WHATWG HTML, June 2020), written from the standard's steps.
Label resolution ("getting an encoding") is delegated to webencodings.lookup - a third-party library,
not html5lib code.  Returns the canonical encoding name (str) or None.
"""
import webencodings

WS = b"\t\n\x0c\r "


class _Abort(Exception):
    pass


def get_encoding(label):
    if isinstance(label, bytes):
        try:
            label = label.decode("ascii")
        except UnicodeDecodeError:
            return None
    e = webencodings.lookup(label)
    return e.name if e is not None else None


def extract_from_meta_content(s, dev=frozenset()):
    """s: bytes (already ASCII-lowercased by the caller or not) -> encoding name or None"""
    low = s.lower()
    pos = 0
    n = len(s)
    while True:
        i = low.find(b"charset", pos)
        if i < 0:
            return None
        p = i + 7
        while p < n and s[p:p + 1] in (b"\t", b"\n", b"\x0c", b"\r", b" "):
            p += 1
        if s[p:p + 1] != b"=":
            if "content-no-loop" in dev:
                return None
            # "move position to point just before that next character, and jump back to loop"
            pos = p
            continue
        p += 1
        while p < n and s[p:p + 1] in (b"\t", b"\n", b"\x0c", b"\r", b" "):
            p += 1
        if p >= n:
            return None
        c = s[p:p + 1]
        if c in (b'"', b"'"):
            j = s.find(c, p + 1)
            if j < 0:
                return None
            return get_encoding(s[p + 1:j])
        j = p
        stop = (b"\t", b"\n", b"\x0c", b"\r", b" ") if "content-no-semicolon" in dev else (b"\t", b"\n", b"\x0c", b"\r", b" ", b";")
        while j < n and s[j:j + 1] not in stop:
            j += 1
        return get_encoding(s[p:j])


def _at(data, pos):
    if pos >= len(data):
        raise _Abort()
    return data[pos:pos + 1]


def get_attribute(data, pos, dev=frozenset()):
    """-> (name, value, newpos) or (None, None, newpos) when there is no attribute"""
    while _at(data, pos) in (b"\t", b"\n", b"\x0c", b"\r", b" ", b"/"):
        pos += 1
    if _at(data, pos) == b">":
        return None, None, pos
    name, value = b"", b""
    # attribute name
    while True:
        c = _at(data, pos)
        if c == b"=" and name != b"":
            pos += 1
            break
        if c in (b"\t", b"\n", b"\x0c", b"\r", b" "):
            # spaces
            while _at(data, pos) in (b"\t", b"\n", b"\x0c", b"\r", b" "):
                pos += 1
            if _at(data, pos) != b"=":
                return name, b"", pos
            pos += 1
            break
        if c in (b"/", b">"):
            return name, b"", pos
        name += c.lower() if b"A" <= c <= b"Z" else c
        pos += 1
    # value
    while _at(data, pos) in (b"\t", b"\n", b"\x0c", b"\r", b" "):
        pos += 1
    c = _at(data, pos)
    if c in (b'"', b"'"):
        q = c
        while True:
            pos += 1
            c = _at(data, pos)
            if c == q:
                pos += 1
                return name, value, pos
            value += c.lower() if b"A" <= c <= b"Z" else c
    if c == b">":
        return name, b"", pos
    value += c.lower() if b"A" <= c <= b"Z" else c
    pos += 1
    while True:
        c = _at(data, pos)
        if c in (b"\t", b"\n", b"\x0c", b"\r", b" ", b">") or (c == b"<" and "lt-ends-value" in dev):
            return name, value, pos
        value += c.lower() if b"A" <= c <= b"Z" else c
        pos += 1


DEVIATIONS = ["early-decision", "lt-ends-value", "comment-no-overlap", "content-no-semicolon", "content-no-loop", "lt-restarts-tag"]


def classify(data, observed, limit=1024):
    """smallest set of html5lib's documented prescan deviations under which the reference reproduces
    `observed`; None if no combination does.  Used only to name a mismatch, never as the oracle."""
    import itertools
    for k in range(1, len(DEVIATIONS) + 1):
        for combo in itertools.combinations(DEVIATIONS, k):
            if prescan(data, limit, frozenset(combo)) == observed:
                return combo
    return None


def _final(charset):
    if charset in ("utf-16be", "utf-16le"):
        return "utf-8"
    if charset == "x-user-defined":
        return "windows-1252"
    return charset


def prescan(data, limit=1024, dev=frozenset()):
    data = data[:limit]
    pos = 0
    n = len(data)
    try:
        while pos < n:
            if data.startswith(b"<!--", pos):
                j = data.find(b"-->", pos + (4 if "comment-no-overlap" in dev else 2))
                if j < 0:
                    return None
                pos = j + 2             # at the '>'
            elif data[pos:pos + 5].lower() == b"<meta" and data[pos + 5:pos + 6] in (b"\t", b"\n", b"\x0c", b"\r", b" ", b"/"):
                pos += 5
                if pos >= n:
                    return None
                seen = set()
                got_pragma = False
                need_pragma = None
                charset = None          # None = null, False = failure
                pending = None
                while True:
                    try:
                        name, value, pos = get_attribute(data, pos, dev)
                    except _Abort:
                        if "early-decision" in dev:
                            return None
                        raise
                    if name is None:
                        break
                    if "early-decision" in dev:
                        # html5lib's handleMeta: decide as soon as a usable attribute is seen
                        if name == b"http-equiv":
                            got_pragma = value == b"content-type"
                            if got_pragma and pending is not None:
                                return _final(pending)
                        elif name == b"charset":
                            enc = get_encoding(value)
                            if enc is not None:
                                return _final(enc)
                        elif name == b"content":
                            enc = extract_from_meta_content(value, dev)
                            if enc is not None:
                                if got_pragma:
                                    return _final(enc)
                                pending = enc
                        continue
                    if name in seen:
                        continue
                    seen.add(name)
                    if name == b"http-equiv":
                        if value == b"content-type":
                            got_pragma = True
                    elif name == b"content":
                        enc = extract_from_meta_content(value, dev)
                        if enc is not None and charset is None:
                            charset = enc
                            need_pragma = True
                    elif name == b"charset":
                        enc = get_encoding(value)
                        charset = enc if enc is not None else False
                        need_pragma = False
                if need_pragma is None:
                    pass
                elif need_pragma and not got_pragma:
                    pass
                elif charset is False or charset is None:
                    pass
                else:
                    return _final(charset)
            elif data[pos:pos + 1] == b"<" and (
                    (data[pos + 1:pos + 2].isalpha() and data[pos + 1:pos + 2].isascii()) or
                    (data[pos + 1:pos + 2] == b"/" and data[pos + 2:pos + 3].isalpha() and data[pos + 2:pos + 3].isascii())):
                # advance to the next 09 0A 0C 0D 20 3E byte
                pos += 1
                restart = False
                while _at(data, pos) not in (b"\t", b"\n", b"\x0c", b"\r", b" ", b">"):
                    if "lt-restarts-tag" in dev and _at(data, pos) == b"<":
                        restart = True
                        break
                    pos += 1
                if restart:
                    continue            # reprocess the "<" byte
                while True:
                    name, value, pos = get_attribute(data, pos, dev)
                    if name is None:
                        break
            elif data[pos:pos + 2] in (b"<!", b"</", b"<?"):
                j = data.find(b">", pos)
                if j < 0:
                    return None
                pos = j
            pos += 1
    except _Abort:
        return None
    return None
