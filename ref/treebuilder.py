"""Reference HTML tree construction (WHATWG HTML, section 13.2.6, June 2020 text), driven by ref/tokenizer.py.

Spec-literal and boring: one method per insertion mode, the standard's helper algorithms under their own
names.  No code or tables shared with html5lib; element category sets are typed from the standard.
Revision notes (June 2020): no </p>/</br> breakout in foreign content (2021), no <hr> in <select> (2023),
no <search>; isindex/menuitem/command are ordinary elements; rb/rtc are handled; dialog closes p.
<template> is NOT modelled (html5lib has no support either; see DESIGN section 9).

Result: canonical tree in the format of mc/trees.py.
"""
from ref import tokenizer as rt

HTML = "http://www.w3.org/1999/xhtml"
MATHML = "http://www.w3.org/1998/Math/MathML"
SVG = "http://www.w3.org/2000/svg"
XLINK = "http://www.w3.org/1999/xlink"
XML = "http://www.w3.org/XML/1998/namespace"
XMLNS = "http://www.w3.org/2000/xmlns/"

WS = "\t\n\x0c\r "

SPECIAL = frozenset(
    [(HTML, n) for n in """address applet area article aside base basefont bgsound blockquote body br button caption center col
colgroup dd details dir div dl dt embed fieldset figcaption figure footer form frame frameset h1 h2 h3 h4 h5 h6 head header hgroup
hr html iframe img input keygen li link listing main marquee menu meta nav noembed noframes noscript object ol p param plaintext
pre script section select source style summary table tbody td template textarea tfoot th thead title tr track ul wbr xmp""".split()] +
    [(MATHML, n) for n in "mi mo mn ms mtext annotation-xml".split()] +
    [(SVG, n) for n in "foreignObject desc title".split()])

FORMATTING = frozenset("a b big code em font i nobr s small strike strong tt u".split())

SCOPE_BASE = frozenset(
    [(HTML, n) for n in "applet caption html table td th marquee object template".split()] +
    [(MATHML, n) for n in "mi mo mn ms mtext annotation-xml".split()] +
    [(SVG, n) for n in "foreignObject desc title".split()])
SCOPE_LIST = SCOPE_BASE | frozenset([(HTML, "ol"), (HTML, "ul")])
SCOPE_BUTTON = SCOPE_BASE | frozenset([(HTML, "button")])
SCOPE_TABLE = frozenset([(HTML, "html"), (HTML, "table"), (HTML, "template")])

IMPLIED_END = frozenset("dd dt li optgroup option p rb rp rt rtc".split())
IMPLIED_END_THOROUGH = IMPLIED_END | frozenset("caption colgroup tbody td tfoot th thead tr".split())

HEADINGS = frozenset("h1 h2 h3 h4 h5 h6".split())

SVG_TAGS = dict((n.lower(), n) for n in """altGlyph altGlyphDef altGlyphItem animateColor animateMotion animateTransform clipPath
feBlend feColorMatrix feComponentTransfer feComposite feConvolveMatrix feDiffuseLighting feDisplacementMap feDistantLight feDropShadow
feFlood feFuncA feFuncB feFuncG feFuncR feGaussianBlur feImage feMerge feMergeNode feMorphology feOffset fePointLight
feSpecularLighting feSpotLight feTile feTurbulence foreignObject glyphRef linearGradient radialGradient textPath""".split())

SVG_ATTRS = dict((n.lower(), n) for n in """attributeName attributeType baseFrequency baseProfile calcMode clipPathUnits diffuseConstant
edgeMode filterUnits glyphRef gradientTransform gradientUnits kernelMatrix kernelUnitLength keyPoints keySplines keyTimes lengthAdjust
limitingConeAngle markerHeight markerUnits markerWidth maskContentUnits maskUnits numOctaves pathLength patternContentUnits
patternTransform patternUnits pointsAtX pointsAtY pointsAtZ preserveAlpha preserveAspectRatio primitiveUnits refX refY repeatCount
repeatDur requiredExtensions requiredFeatures specularConstant specularExponent spreadMethod startOffset stdDeviation stitchTiles
surfaceScale systemLanguage tableValues targetX targetY textLength viewBox viewTarget xChannelSelector yChannelSelector
zoomAndPan""".split())

FOREIGN_ATTRS = {
    "xlink:actuate": (XLINK, "actuate"), "xlink:arcrole": (XLINK, "arcrole"), "xlink:href": (XLINK, "href"),
    "xlink:role": (XLINK, "role"), "xlink:show": (XLINK, "show"), "xlink:title": (XLINK, "title"), "xlink:type": (XLINK, "type"),
    "xml:lang": (XML, "lang"), "xml:space": (XML, "space"), "xmlns": (XMLNS, "xmlns"), "xmlns:xlink": (XMLNS, "xlink"),
}

BREAKOUT = frozenset("""b big blockquote body br center code dd div dl dt em embed h1 h2 h3 h4 h5 h6 head hr i img li listing menu meta
nobr ol p pre ruby s small span strong strike sub sup table tt u ul var""".split())

QUIRKS_PUBLIC_PREFIXES = [s.lower() for s in """+//Silmaril//dtd html Pro v0r11 19970101//
-//AS//DTD HTML 3.0 asWedit + extensions//
-//AdvaSoft Ltd//DTD HTML 3.0 asWedit + extensions//
-//IETF//DTD HTML 2.0 Level 1//
-//IETF//DTD HTML 2.0 Level 2//
-//IETF//DTD HTML 2.0 Strict Level 1//
-//IETF//DTD HTML 2.0 Strict Level 2//
-//IETF//DTD HTML 2.0 Strict//
-//IETF//DTD HTML 2.0//
-//IETF//DTD HTML 2.1E//
-//IETF//DTD HTML 3.0//
-//IETF//DTD HTML 3.2 Final//
-//IETF//DTD HTML 3.2//
-//IETF//DTD HTML 3//
-//IETF//DTD HTML Level 0//
-//IETF//DTD HTML Level 1//
-//IETF//DTD HTML Level 2//
-//IETF//DTD HTML Level 3//
-//IETF//DTD HTML Strict Level 0//
-//IETF//DTD HTML Strict Level 1//
-//IETF//DTD HTML Strict Level 2//
-//IETF//DTD HTML Strict Level 3//
-//IETF//DTD HTML Strict//
-//IETF//DTD HTML//
-//Metrius//DTD Metrius Presentational//
-//Microsoft//DTD Internet Explorer 2.0 HTML Strict//
-//Microsoft//DTD Internet Explorer 2.0 HTML//
-//Microsoft//DTD Internet Explorer 2.0 Tables//
-//Microsoft//DTD Internet Explorer 3.0 HTML Strict//
-//Microsoft//DTD Internet Explorer 3.0 HTML//
-//Microsoft//DTD Internet Explorer 3.0 Tables//
-//Netscape Comm. Corp.//DTD HTML//
-//Netscape Comm. Corp.//DTD Strict HTML//
-//O'Reilly and Associates//DTD HTML 2.0//
-//O'Reilly and Associates//DTD HTML Extended 1.0//
-//O'Reilly and Associates//DTD HTML Extended Relaxed 1.0//
-//SQ//DTD HTML 2.0 HoTMetaL + extensions//
-//SoftQuad Software//DTD HoTMetaL PRO 6.0::19990601::extensions to HTML 4.0//
-//SoftQuad//DTD HoTMetaL PRO 4.0::19971010::extensions to HTML 4.0//
-//Spyglass//DTD HTML 2.0 Extended//
-//Sun Microsystems Corp.//DTD HotJava HTML//
-//Sun Microsystems Corp.//DTD HotJava Strict HTML//
-//W3C//DTD HTML 3 1995-03-24//
-//W3C//DTD HTML 3.2 Draft//
-//W3C//DTD HTML 3.2 Final//
-//W3C//DTD HTML 3.2//
-//W3C//DTD HTML 3.2S Draft//
-//W3C//DTD HTML 4.0 Frameset//
-//W3C//DTD HTML 4.0 Transitional//
-//W3C//DTD HTML Experimental 19960712//
-//W3C//DTD HTML Experimental 970421//
-//W3C//DTD W3 HTML//
-//W3O//DTD W3 HTML 3.0//
-//WebTechs//DTD Mozilla HTML 2.0//
-//WebTechs//DTD Mozilla HTML//""".split("\n")]


class Node(object):
    __slots__ = ("kind", "ns", "name", "attrs", "children", "parent", "data", "public", "system")

    def __init__(self, kind, name=None, ns=None, attrs=None, data=None):
        self.kind = kind
        self.ns = ns
        self.name = name
        self.attrs = attrs if attrs is not None else []
        self.children = []
        self.parent = None
        self.data = data
        self.public = None
        self.system = None

    def append(self, child):
        if child.parent is not None:
            child.parent.remove(child)
        child.parent = self
        self.children.append(child)

    def insert_before(self, child, ref):
        if child.parent is not None:
            child.parent.remove(child)
        child.parent = self
        self.children.insert(self.children.index(ref), child)

    def remove(self, child):
        self.children.remove(child)
        child.parent = None

    def is_(self, ns, name):
        return self.kind == "element" and self.ns == ns and self.name == name

    def html(self, *names):
        return self.kind == "element" and self.ns == HTML and self.name in names

    def attr(self, local):
        for (ns, n), v in self.attrs:
            if ns is None and n == local:
                return v
        return None


MARKER = object()


class TreeBuilder(object):
    def __init__(self, text, scripting=False, context=None, final=True, dev=frozenset()):
        self.dev = dev              # emulated html5lib deviations: used ONLY to name a mismatch, never as the oracle
        self.scripting = scripting
        self.doc = Node("document")
        self.mode = "initial"
        self.original_mode = None
        self.stack = []
        self.afe = []
        self.head = None
        self.form = None
        self.frameset_ok = True
        self.foster = False
        self.quirks = "no-quirks"
        self.pending_table_text = []
        self.context = None
        self.tok = rt.Tokenizer(text, final=final, cdata_allowed=self._cdata_allowed)
        self.ignore_lf = False
        self.stopped = False
        if context is not None:
            self._setup_fragment(context)

    # ------------------------------------------------------------------------------------------------
    def _setup_fragment(self, context_name):
        """html fragment parsing algorithm (context element is an HTML element of the given name)"""
        self.context = Node("element", context_name, HTML)
        n = context_name
        if n in ("title", "textarea"):
            self.tok.state = "rcdata"
        elif n in ("style", "xmp", "iframe", "noembed", "noframes"):
            self.tok.state = "rawtext"
        elif n == "script":
            self.tok.state = "script_data"
        elif n == "noscript":
            if self.scripting:
                self.tok.state = "rawtext"
        elif n == "plaintext":
            self.tok.state = "plaintext"
        root = Node("element", "html", HTML)
        self.doc.append(root)
        self.stack.append(root)
        self.reset_insertion_mode()
        # form element pointer: nearest form ancestor of the context (none: the context has no ancestors here)
        if n == "form":
            self.form = self.context

    def _cdata_allowed(self):
        n = self.adjusted_current_node()
        return n is not None and n.ns != HTML

    # ------------------------------------------------------------------------------------------------
    def run(self):
        for t in self.tok.run():
            self.process(t)
            if self.stopped:
                break
        return self

    @property
    def current(self):
        return self.stack[-1] if self.stack else None

    def adjusted_current_node(self):
        if self.context is not None and len(self.stack) == 1:
            return self.context
        return self.current

    # -- dispatcher (13.2.6 "tree construction dispatcher") -------------------------------------------------
    def process(self, t):
        if t[0] == "Character" and self.ignore_lf:
            self.ignore_lf = False
            if t[1] == "\n":
                if "sticky-ignore-lf" not in self.dev or (
                        self.current is not None and self.current.html("pre", "listing", "textarea") and not self.current.children):
                    return
        elif self.ignore_lf and t[0] != "Character":
            if "sticky-ignore-lf" not in self.dev:
                self.ignore_lf = False
        acn = self.adjusted_current_node()
        kind = t[0]
        if (not self.stack or acn.ns == HTML or
                (self.is_mathml_text_ip(acn) and kind == "StartTag" and t[1] not in ("mglyph", "malignmark")) or
                (self.is_mathml_text_ip(acn) and kind == "Character") or
                (acn.is_(MATHML, "annotation-xml") and kind == "StartTag" and t[1] == "svg") or
                (self.is_html_ip(acn) and kind in ("StartTag", "Character")) or
                kind == "EOF"):
            self.dispatch(self.mode, t)
        else:
            self.foreign(t)

    def dispatch(self, mode, t):
        getattr(self, "m_" + mode)(t)

    @staticmethod
    def is_mathml_text_ip(n):
        return n.kind == "element" and n.ns == MATHML and n.name in ("mi", "mo", "mn", "ms", "mtext")

    @staticmethod
    def is_html_ip(n):
        if n.kind != "element":
            return False
        if n.ns == MATHML and n.name == "annotation-xml":
            for (ns, k), v in n.attrs:
                if ns is None and k == "encoding" and v.lower() in ("text/html", "application/xhtml+xml"):
                    return True
            return False
        return n.ns == SVG and n.name in ("foreignObject", "desc", "title")

    # -- insertion helpers -------------------------------------------------------------------------------
    def appropriate_place(self, override=None):
        """-> (parent, before) : insert as child of parent before `before` (None = append)"""
        target = override if override is not None else self.current
        if self.foster and target.html("table", "tbody", "tfoot", "thead", "tr"):
            last_table = None
            for n in reversed(self.stack):
                if n.html("table"):
                    last_table = n
                    break
            if last_table is None:
                return self.stack[0], None
            if last_table.parent is not None:
                return last_table.parent, last_table
            prev = self.stack[self.stack.index(last_table) - 1]
            return prev, None
        return target, None

    def create_element(self, token, ns):
        attrs = [((None, k), v) for k, v in token[2]]
        return Node("element", token[1], ns, attrs)

    def insert_foreign(self, token, ns):
        el = self.create_element(token, ns)
        parent, before = self.appropriate_place()
        self._insert(parent, before, el)
        self.stack.append(el)
        return el

    def insert_html(self, token):
        return self.insert_foreign(token, HTML)

    def _insert(self, parent, before, node):
        if before is None:
            parent.append(node)
        else:
            parent.insert_before(node, before)

    def insert_char(self, ch):
        parent, before = self.appropriate_place()
        if parent.kind == "document":
            return
        if before is None:
            prev = parent.children[-1] if parent.children else None
        else:
            i = parent.children.index(before)
            prev = parent.children[i - 1] if i > 0 else None
        if prev is not None and prev.kind == "text":
            prev.data += ch
        else:
            self._insert(parent, before, Node("text", data=ch))

    def insert_comment(self, data, position=None):
        if position is None:
            parent, before = self.appropriate_place()
        else:
            parent, before = position, None
        self._insert(parent, before, Node("comment", data=data))

    # -- stack helpers -------------------------------------------------------------------------------------
    def in_scope_generic(self, pred, scope_set):
        for n in reversed(self.stack):
            if pred(n):
                return True
            if (n.ns, n.name) in scope_set:
                return False
        return False

    def in_scope(self, *names):
        return self.in_scope_generic(lambda n: n.html(*names), SCOPE_BASE)

    def node_in_scope(self, node):
        return self.in_scope_generic(lambda n: n is node, SCOPE_BASE)

    def in_list_scope(self, *names):
        return self.in_scope_generic(lambda n: n.html(*names), SCOPE_LIST)

    def in_button_scope(self, *names):
        return self.in_scope_generic(lambda n: n.html(*names), SCOPE_BUTTON)

    def in_table_scope(self, *names):
        return self.in_scope_generic(lambda n: n.html(*names), SCOPE_TABLE)

    def in_select_scope(self, *names):
        for n in reversed(self.stack):
            if n.html(*names):
                return True
            if not n.html("optgroup", "option"):
                return False
        return False

    def generate_implied_end_tags(self, exclude=None):
        while self.current is not None and self.current.ns == HTML and self.current.name in IMPLIED_END and self.current.name != exclude:
            self.stack.pop()

    def pop_until(self, *names):
        while self.stack:
            n = self.stack.pop()
            if n.html(*names):
                return

    def pop_until_node(self, node):
        while self.stack:
            n = self.stack.pop()
            if n is node:
                return

    def close_p(self):
        self.generate_implied_end_tags("p")
        self.pop_until("p")

    def stack_has(self, *names):
        return any(n.html(*names) for n in self.stack)

    # -- active formatting elements ----------------------------------------------------------------------
    def push_afe(self, el):
        # Noah's Ark clause
        count = 0
        for e in reversed(self.afe):
            if e is MARKER:
                break
            if e.name == el.name and e.ns == el.ns and sorted(e.attrs) == sorted(el.attrs):
                count += 1
                if count == 3:
                    self.afe.remove(e)
                    break
        self.afe.append(el)

    def reconstruct_afe(self):
        if not self.afe:
            return
        entry = self.afe[-1]
        if entry is MARKER or entry in self.stack:
            return
        i = len(self.afe) - 1
        while True:
            if i == 0:
                break
            i -= 1
            entry = self.afe[i]
            if entry is MARKER or entry in self.stack:
                i += 1
                break
        while True:
            entry = self.afe[i]
            new = Node("element", entry.name, entry.ns, list(entry.attrs))
            parent, before = self.appropriate_place()
            self._insert(parent, before, new)
            self.stack.append(new)
            self.afe[i] = new
            if i == len(self.afe) - 1:
                break
            i += 1

    def clear_afe_to_marker(self):
        while self.afe:
            e = self.afe.pop()
            if e is MARKER:
                break

    # -- adoption agency ------------------------------------------------------------------------------------
    def adoption_agency(self, subject):
        cur = self.current
        if cur.html(subject) and cur not in self.afe:
            self.stack.pop()
            return
        for _outer in range(8):
            fe = None
            for e in reversed(self.afe):
                if e is MARKER:
                    break
                if e.html(subject) or (e.kind == "element" and e.name == subject and e.ns == HTML):
                    fe = e
                    break
            if fe is None:
                self.any_other_end_tag(subject)
                return
            if fe not in self.stack:
                self.afe.remove(fe)
                return
            if not self.node_in_scope(fe):
                return
            # (parse error if fe is not the current node)
            fi = self.stack.index(fe)
            fb = None
            for n in self.stack[fi + 1:]:
                if (n.ns, n.name) in SPECIAL:
                    fb = n
                    break
            if fb is None:
                del self.stack[fi:]
                self.afe.remove(fe)
                return
            common = self.stack[fi - 1]
            bookmark = None             # None: at the position of fe; otherwise: immediately after this element
            node = last = fb
            ni = self.stack.index(fb)
            inner = 0
            while True:
                inner += 1
                ni -= 1
                node = self.stack[ni]
                if node is fe:
                    break
                if inner > 3 and node in self.afe:
                    self.afe.remove(node)
                if node not in self.afe:
                    del self.stack[ni]
                    continue
                new = Node("element", node.name, node.ns, list(node.attrs))
                self.afe[self.afe.index(node)] = new
                self.stack[ni] = new
                node = new
                if last is fb:
                    bookmark = node
                node.append(last)
                last = node
            # "insert whatever last node ended up being at the appropriate place for inserting a node, but using
            #  common ancestor as the override target" (foster parenting applies to the override target)
            parent, before = self.appropriate_place(override=common)
            self._insert(parent, before, last)
            new = Node("element", fe.name, fe.ns, list(fe.attrs))
            for c in list(fb.children):
                new.append(c)
            fb.append(new)
            if bookmark is None:
                idx = self.afe.index(fe)
                self.afe.remove(fe)
            else:
                self.afe.remove(fe)
                idx = self.afe.index(bookmark) + 1
            self.afe.insert(idx, new)
            self.stack.remove(fe)
            self.stack.insert(self.stack.index(fb) + 1, new)

    def any_other_end_tag(self, name):
        for n in reversed(self.stack):
            if n.html(name):
                self.generate_implied_end_tags(name)
                self.pop_until_node(n)
                return
            if (n.ns, n.name) in SPECIAL:
                return

    # -- reset the insertion mode appropriately -------------------------------------------------------------
    def reset_insertion_mode(self):
        for i in range(len(self.stack) - 1, -1, -1):
            node = self.stack[i]
            last = i == 0
            if last and self.context is not None:
                node = self.context
            if node.html("select"):
                if not last:
                    for anc in reversed(self.stack[:i]):
                        if anc.html("template"):
                            break
                        if anc.html("table"):
                            self.mode = "in_select_in_table"
                            return
                self.mode = "in_select"
                return
            if node.html("td", "th") and not last:
                self.mode = "in_cell"
                return
            if node.html("tr"):
                self.mode = "in_row"
                return
            if node.html("tbody", "thead", "tfoot"):
                self.mode = "in_table_body"
                return
            if node.html("caption"):
                self.mode = "in_caption"
                return
            if node.html("colgroup"):
                self.mode = "in_column_group"
                return
            if node.html("table"):
                self.mode = "in_table"
                return
            if node.html("head") and not last:
                self.mode = "in_head"
                return
            if node.html("body"):
                self.mode = "in_body"
                return
            if node.html("frameset"):
                self.mode = "in_frameset"
                return
            if node.html("html"):
                self.mode = "before_head" if self.head is None else "after_head"
                return
            if last:
                self.mode = "in_body"
                return

    # -- generic raw text / RCDATA ------------------------------------------------------------------------------
    def parse_text_element(self, token, state):
        self.insert_html(token)
        self.tok.state = state
        self.original_mode = self.mode
        self.mode = "text"

    # ======================================================================================================
    # insertion modes
    def m_initial(self, t):
        k = t[0]
        if k == "Character" and t[1] in WS:
            return
        if k == "Comment":
            self.insert_comment(t[1], self.doc)
            return
        if k == "DOCTYPE":
            d = Node("doctype", t[1] or "")
            d.public = t[2] or ""
            d.system = t[3] or ""
            self.doc.append(d)
            self.quirks = self.quirks_mode(t)
            self.mode = "before_html"
            return
        self.quirks = "quirks"
        self.mode = "before_html"
        self.dispatch(self.mode, t)

    @staticmethod
    def quirks_mode(t):
        _, name, public, system, force = t
        pub = (public or "").lower()
        sysid = (system or "").lower()
        if force or name != "html":
            return "quirks"
        if pub in ("-//w3o//dtd w3 html strict 3.0//en//", "-/w3c/dtd html 4.0 transitional/en", "html"):
            return "quirks"
        if sysid == "http://www.ibm.com/data/dtd/v11/ibmxhtml1-transitional.dtd":
            return "quirks"
        if public is not None and any(pub.startswith(p) for p in QUIRKS_PUBLIC_PREFIXES):
            return "quirks"
        if system is None and (pub.startswith("-//w3c//dtd html 4.01 frameset//") or pub.startswith("-//w3c//dtd html 4.01 transitional//")):
            return "quirks"
        if pub.startswith("-//w3c//dtd xhtml 1.0 frameset//") or pub.startswith("-//w3c//dtd xhtml 1.0 transitional//"):
            return "limited-quirks"
        if system is not None and (pub.startswith("-//w3c//dtd html 4.01 frameset//") or pub.startswith("-//w3c//dtd html 4.01 transitional//")):
            return "limited-quirks"
        return "no-quirks"

    def m_before_html(self, t):
        k = t[0]
        if k == "DOCTYPE":
            return
        if k == "Comment":
            self.insert_comment(t[1], self.doc)
            return
        if k == "Character" and t[1] in WS:
            return
        if k == "StartTag" and t[1] == "html":
            el = self.create_element(t, HTML)
            self.doc.append(el)
            self.stack.append(el)
            self.mode = "before_head"
            return
        if k == "EndTag" and t[1] not in ("head", "body", "html", "br"):
            return
        el = Node("element", "html", HTML)
        self.doc.append(el)
        self.stack.append(el)
        self.mode = "before_head"
        self.dispatch(self.mode, t)

    def m_before_head(self, t):
        k = t[0]
        if k == "Character" and t[1] in WS:
            return
        if k == "Comment":
            self.insert_comment(t[1])
            return
        if k == "DOCTYPE":
            return
        if k == "StartTag" and t[1] == "html":
            self.m_in_body(t)
            return
        if k == "StartTag" and t[1] == "head":
            self.head = self.insert_html(t)
            self.mode = "in_head"
            return
        if k == "EndTag" and t[1] not in ("head", "body", "html", "br"):
            return
        self.head = self.insert_html(("StartTag", "head", [], False))
        self.mode = "in_head"
        self.dispatch(self.mode, t)

    def m_in_head(self, t):
        k = t[0]
        if k == "Character" and t[1] in WS:
            self.insert_char(t[1])
            return
        if k == "Comment":
            self.insert_comment(t[1])
            return
        if k == "DOCTYPE":
            return
        if k == "StartTag":
            n = t[1]
            if n == "html":
                self.m_in_body(t)
                return
            if n in ("base", "basefont", "bgsound", "link", "meta"):
                self.insert_html(t)
                self.stack.pop()
                return
            if n == "title":
                self.parse_text_element(t, "rcdata")
                return
            if (n == "noscript" and self.scripting) or n in ("noframes", "style"):
                self.parse_text_element(t, "rawtext")
                return
            if n == "noscript":
                self.insert_html(t)
                self.mode = "in_head_noscript"
                return
            if n == "script":
                self.parse_text_element(t, "script_data")
                return
            if n == "head":
                return
        if k == "EndTag":
            n = t[1]
            if n == "head":
                self.stack.pop()
                self.mode = "after_head"
                return
            if n not in ("body", "html", "br"):
                return
        self.stack.pop()
        self.mode = "after_head"
        self.dispatch(self.mode, t)

    def m_in_head_noscript(self, t):
        k = t[0]
        if k == "DOCTYPE":
            return
        if k == "StartTag" and t[1] == "html":
            self.m_in_body(t)
            return
        if k == "EndTag" and t[1] == "noscript":
            self.stack.pop()
            self.mode = "in_head"
            return
        if (k == "Character" and t[1] in WS) or k == "Comment" or \
                (k == "StartTag" and t[1] in ("basefont", "bgsound", "link", "meta", "noframes", "style")):
            self.m_in_head(t)
            return
        if k == "EndTag" and t[1] != "br":
            return
        if k == "StartTag" and t[1] in ("head", "noscript"):
            return
        self.stack.pop()
        self.mode = "in_head"
        self.dispatch(self.mode, t)

    def m_after_head(self, t):
        k = t[0]
        if k == "Character" and t[1] in WS:
            self.insert_char(t[1])
            return
        if k == "Comment":
            self.insert_comment(t[1])
            return
        if k == "DOCTYPE":
            return
        if k == "StartTag":
            n = t[1]
            if n == "html":
                self.m_in_body(t)
                return
            if n == "body":
                self.insert_html(t)
                self.frameset_ok = False
                self.mode = "in_body"
                return
            if n == "frameset":
                self.insert_html(t)
                self.mode = "in_frameset"
                return
            if n in ("base", "basefont", "bgsound", "link", "meta", "noframes", "script", "style", "template", "title"):
                self.stack.append(self.head)
                self.m_in_head(t)
                if self.head in self.stack:
                    self.stack.remove(self.head)
                return
            if n == "head":
                return
        if k == "EndTag" and t[1] not in ("body", "html", "br"):
            return
        self.insert_html(("StartTag", "body", [], False))
        self.mode = "in_body"
        self.dispatch(self.mode, t)

    # -- in body ----------------------------------------------------------------------------------------------
    def m_in_body(self, t):
        k = t[0]
        if k == "Character":
            ch = t[1]
            if ch == "\x00":
                return
            self.reconstruct_afe()
            self.insert_char(ch)
            if ch not in WS:
                self.frameset_ok = False
            return
        if k == "Comment":
            self.insert_comment(t[1])
            return
        if k == "DOCTYPE":
            return
        if k == "EOF":
            self.stopped = True
            return
        if k == "StartTag":
            self.in_body_start(t)
        else:
            self.in_body_end(t)

    def in_body_start(self, t):
        n = t[1]
        if n == "html":
            if self.stack_has("template"):
                return
            top = self.stack[0]
            have = set(k for k, v in top.attrs)
            for k, v in t[2]:
                if (None, k) not in have:
                    top.attrs.append(((None, k), v))
            return
        if n in ("base", "basefont", "bgsound", "link", "meta", "noframes", "script", "style", "template", "title"):
            self.m_in_head(t)
            return
        if n == "body":
            if len(self.stack) < 2 or not self.stack[1].html("body") or self.stack_has("template"):
                return
            self.frameset_ok = False
            body = self.stack[1]
            have = set(k for k, v in body.attrs)
            for k, v in t[2]:
                if (None, k) not in have:
                    body.attrs.append(((None, k), v))
            return
        if n == "frameset":
            if len(self.stack) < 2 or not self.stack[1].html("body"):
                return
            if not self.frameset_ok:
                return
            body = self.stack[1]
            if body.parent is not None:
                body.parent.remove(body)
            del self.stack[1:]
            self.insert_html(t)
            self.mode = "in_frameset"
            return
        if n in ("address", "article", "aside", "blockquote", "center", "details", "dialog", "dir", "div", "dl", "fieldset", "figcaption",
                 "figure", "footer", "header", "hgroup", "main", "menu", "nav", "ol", "p", "section", "summary", "ul"):
            if self.in_button_scope("p"):
                self.close_p()
            self.insert_html(t)
            return
        if n in HEADINGS:
            if self.in_button_scope("p"):
                self.close_p()
            if self.current.ns == HTML and self.current.name in HEADINGS:
                self.stack.pop()
            self.insert_html(t)
            return
        if n in ("pre", "listing"):
            if self.in_button_scope("p"):
                self.close_p()
            self.insert_html(t)
            self.ignore_lf = True
            self.frameset_ok = False
            return
        if n == "form":
            if self.form is not None and not self.stack_has("template"):
                return
            if self.in_button_scope("p"):
                self.close_p()
            el = self.insert_html(t)
            if not self.stack_has("template"):
                self.form = el
            return
        if n == "li":
            self.frameset_ok = False
            for node in reversed(self.stack):
                if node.html("li"):
                    self.generate_implied_end_tags("li")
                    self.pop_until("li")
                    break
                if (node.ns, node.name) in SPECIAL and not node.html("address", "div", "p"):
                    break
            if self.in_button_scope("p"):
                self.close_p()
            self.insert_html(t)
            return
        if n in ("dd", "dt"):
            self.frameset_ok = False
            for node in reversed(self.stack):
                if node.html("dd"):
                    self.generate_implied_end_tags("dd")
                    self.pop_until("dd")
                    break
                if node.html("dt"):
                    self.generate_implied_end_tags("dt")
                    self.pop_until("dt")
                    break
                if (node.ns, node.name) in SPECIAL and not node.html("address", "div", "p"):
                    break
            if self.in_button_scope("p"):
                self.close_p()
            self.insert_html(t)
            return
        if n == "plaintext":
            if self.in_button_scope("p"):
                self.close_p()
            self.insert_html(t)
            self.tok.state = "plaintext"
            return
        if n == "button":
            if self.in_scope("button"):
                self.generate_implied_end_tags()
                self.pop_until("button")
            self.reconstruct_afe()
            self.insert_html(t)
            self.frameset_ok = False
            return
        if n == "a":
            for e in reversed(self.afe):
                if e is MARKER:
                    break
                if e.html("a"):
                    self.adoption_agency("a")
                    if e in self.afe:
                        self.afe.remove(e)
                    if e in self.stack:
                        self.stack.remove(e)
                    break
            self.reconstruct_afe()
            el = self.insert_html(t)
            self.push_afe(el)
            return
        if n in ("b", "big", "code", "em", "font", "i", "s", "small", "strike", "strong", "tt", "u"):
            self.reconstruct_afe()
            el = self.insert_html(t)
            self.push_afe(el)
            return
        if n == "nobr":
            self.reconstruct_afe()
            if self.in_scope("nobr"):
                self.adoption_agency("nobr")
                self.reconstruct_afe()
            el = self.insert_html(t)
            self.push_afe(el)
            return
        if n in ("applet", "marquee", "object"):
            self.reconstruct_afe()
            self.insert_html(t)
            self.afe.append(MARKER)
            self.frameset_ok = False
            return
        if n == "table":
            if self.quirks != "quirks" and self.in_button_scope("p"):
                self.close_p()
            self.insert_html(t)
            self.frameset_ok = False
            self.mode = "in_table"
            return
        if n in ("area", "br", "embed", "img", "keygen", "wbr"):
            self.reconstruct_afe()
            self.insert_html(t)
            self.stack.pop()
            self.frameset_ok = False
            return
        if n == "input":
            self.reconstruct_afe()
            el = self.insert_html(t)
            self.stack.pop()
            ty = el.attr("type")
            if ty is None or ty.lower() != "hidden":
                self.frameset_ok = False
            return
        if n in ("param", "source", "track"):
            self.insert_html(t)
            self.stack.pop()
            return
        if n == "hr":
            if self.in_button_scope("p"):
                self.close_p()
            self.insert_html(t)
            self.stack.pop()
            self.frameset_ok = False
            return
        if n == "image":
            self.in_body_start(("StartTag", "img", t[2], t[3]))
            return
        if n == "textarea":
            self.insert_html(t)
            self.ignore_lf = True
            self.tok.state = "rcdata"
            self.original_mode = self.mode
            self.frameset_ok = False
            self.mode = "text"
            return
        if n == "xmp":
            if self.in_button_scope("p"):
                self.close_p()
            self.reconstruct_afe()
            self.frameset_ok = False
            self.parse_text_element(t, "rawtext")
            return
        if n == "iframe":
            self.frameset_ok = False
            self.parse_text_element(t, "rawtext")
            return
        if n == "noembed" or (n == "noscript" and self.scripting):
            self.parse_text_element(t, "rawtext")
            return
        if n == "select":
            self.reconstruct_afe()
            self.insert_html(t)
            self.frameset_ok = False
            if self.mode in ("in_table", "in_caption", "in_table_body", "in_row", "in_cell"):
                self.mode = "in_select_in_table"
            else:
                self.mode = "in_select"
            return
        if n in ("optgroup", "option"):
            if self.current.html("option"):
                self.stack.pop()
            self.reconstruct_afe()
            self.insert_html(t)
            return
        if n in ("rb", "rtc"):
            if self.in_scope("ruby"):
                self.generate_implied_end_tags()
            self.insert_html(t)
            return
        if n in ("rp", "rt"):
            if self.in_scope("ruby"):
                self.generate_implied_end_tags("rtc")
            self.insert_html(t)
            return
        if n == "math":
            self.reconstruct_afe()
            tok = self.adjust_foreign_token(t, MATHML)
            self.insert_foreign_adjusted(tok, MATHML)
            if t[3]:
                self.stack.pop()
            return
        if n == "svg":
            self.reconstruct_afe()
            tok = self.adjust_foreign_token(t, SVG)
            self.insert_foreign_adjusted(tok, SVG)
            if t[3]:
                self.stack.pop()
            return
        if n in ("caption", "col", "colgroup", "frame", "head", "tbody", "td", "tfoot", "th", "thead", "tr"):
            return
        self.reconstruct_afe()
        self.insert_html(t)

    def in_body_end(self, t):
        n = t[1]
        if n == "template":
            return
        if n == "body":
            if not self.in_scope("body"):
                return
            self.mode = "after_body"
            return
        if n == "html":
            if not self.in_scope("body"):
                return
            self.mode = "after_body"
            self.dispatch(self.mode, t)
            return
        if n in ("address", "article", "aside", "blockquote", "button", "center", "details", "dialog", "dir", "div", "dl", "fieldset",
                 "figcaption", "figure", "footer", "header", "hgroup", "listing", "main", "menu", "nav", "ol", "pre", "section",
                 "summary", "ul"):
            if not self.in_scope(n):
                return
            self.generate_implied_end_tags()
            self.pop_until(n)
            return
        if n == "form":
            if not self.stack_has("template"):
                node = self.form
                self.form = None
                if node is None or not self.node_in_scope(node):
                    return
                self.generate_implied_end_tags()
                if node in self.stack:
                    self.stack.remove(node)
                return
            if not self.in_scope("form"):
                return
            self.generate_implied_end_tags()
            self.pop_until("form")
            return
        if n == "p":
            if not self.in_button_scope("p"):
                self.insert_html(("StartTag", "p", [], False))
            self.close_p()
            return
        if n == "li":
            if not self.in_list_scope("li"):
                return
            self.generate_implied_end_tags("li")
            self.pop_until("li")
            return
        if n in ("dd", "dt"):
            if not self.in_scope(n):
                return
            self.generate_implied_end_tags(n)
            self.pop_until(n)
            return
        if n in HEADINGS:
            if not self.in_scope(*HEADINGS):
                return
            self.generate_implied_end_tags()
            self.pop_until(*HEADINGS)
            return
        if n in ("a", "b", "big", "code", "em", "font", "i", "nobr", "s", "small", "strike", "strong", "tt", "u"):
            self.adoption_agency(n)
            return
        if n in ("applet", "marquee", "object"):
            if not self.in_scope(n):
                return
            self.generate_implied_end_tags()
            self.pop_until(n)
            self.clear_afe_to_marker()
            return
        if n == "br":
            self.in_body_start(("StartTag", "br", [], False))
            return
        self.any_other_end_tag(n)

    # -- text ---------------------------------------------------------------------------------------------------
    def m_text(self, t):
        k = t[0]
        if k == "Character":
            self.insert_char(t[1])
            return
        if k == "EOF":
            self.stack.pop()
            self.mode = self.original_mode
            self.dispatch(self.mode, t)
            return
        # end tag (script or other)
        self.stack.pop()
        self.mode = self.original_mode

    # -- tables -------------------------------------------------------------------------------------------------
    def clear_stack_to(self, *names):
        while not self.current.html(*names):
            self.stack.pop()

    def m_in_table(self, t):
        k = t[0]
        if k == "Character" and self.current.html("table", "tbody", "tfoot", "thead", "tr"):
            self.pending_table_text = []
            self.original_mode = self.mode
            self.mode = "in_table_text"
            self.dispatch(self.mode, t)
            return
        if k == "Comment":
            self.insert_comment(t[1])
            return
        if k == "DOCTYPE":
            return
        if k == "StartTag":
            n = t[1]
            if n == "caption":
                self.clear_stack_to("table", "template", "html")
                self.afe.append(MARKER)
                self.insert_html(t)
                self.mode = "in_caption"
                return
            if n == "colgroup":
                self.clear_stack_to("table", "template", "html")
                self.insert_html(t)
                self.mode = "in_column_group"
                return
            if n == "col":
                self.clear_stack_to("table", "template", "html")
                self.insert_html(("StartTag", "colgroup", [], False))
                self.mode = "in_column_group"
                self.dispatch(self.mode, t)
                return
            if n in ("tbody", "tfoot", "thead"):
                self.clear_stack_to("table", "template", "html")
                self.insert_html(t)
                self.mode = "in_table_body"
                return
            if n in ("td", "th", "tr"):
                self.clear_stack_to("table", "template", "html")
                self.insert_html(("StartTag", "tbody", [], False))
                self.mode = "in_table_body"
                self.dispatch(self.mode, t)
                return
            if n == "table":
                if not self.in_table_scope("table"):
                    return
                self.pop_until("table")
                self.reset_insertion_mode()
                self.dispatch(self.mode, t)
                return
            if n in ("style", "script", "template"):
                self.m_in_head(t)
                return
            if n == "input":
                ty = None
                for kk, v in t[2]:
                    if kk == "type":
                        ty = v
                if ty is not None and ty.lower() == "hidden":
                    self.insert_html(t)
                    self.stack.pop()
                    return
            if n == "form":
                if self.stack_has("template") or self.form is not None:
                    return
                self.form = self.insert_html(t)
                self.stack.pop()
                return
        if k == "EndTag":
            n = t[1]
            if n == "table":
                if not self.in_table_scope("table"):
                    return
                self.pop_until("table")
                self.reset_insertion_mode()
                return
            if n in ("body", "caption", "col", "colgroup", "html", "tbody", "td", "tfoot", "th", "thead", "tr"):
                return
            if n == "template":
                return
        if k == "EOF":
            self.m_in_body(t)
            return
        self.foster = True
        self.m_in_body(t)
        self.foster = False

    def m_in_table_text(self, t):
        k = t[0]
        if k == "Character":
            if t[1] == "\x00":
                return
            self.pending_table_text.append(t[1])
            return
        if any(c not in WS for c in self.pending_table_text):
            for c in self.pending_table_text:
                self.foster = True
                self.m_in_body(("Character", c))
                self.foster = False
        else:
            for c in self.pending_table_text:
                self.insert_char(c)
        self.pending_table_text = []
        self.mode = self.original_mode
        self.dispatch(self.mode, t)

    def m_in_caption(self, t):
        k = t[0]
        if (k == "EndTag" and t[1] == "caption") or \
                (k == "StartTag" and t[1] in ("caption", "col", "colgroup", "tbody", "td", "tfoot", "th", "thead", "tr")) or \
                (k == "EndTag" and t[1] == "table"):
            if not self.in_table_scope("caption"):
                return
            self.generate_implied_end_tags()
            self.pop_until("caption")
            self.clear_afe_to_marker()
            self.mode = "in_table"
            if not (k == "EndTag" and t[1] == "caption"):
                self.dispatch(self.mode, t)
            return
        if k == "EndTag" and t[1] in ("body", "col", "colgroup", "html", "tbody", "td", "tfoot", "th", "thead", "tr"):
            return
        self.m_in_body(t)

    def m_in_column_group(self, t):
        k = t[0]
        if k == "Character" and t[1] in WS:
            self.insert_char(t[1])
            return
        if k == "Comment":
            self.insert_comment(t[1])
            return
        if k == "DOCTYPE":
            return
        if k == "StartTag" and t[1] == "html":
            self.m_in_body(t)
            return
        if k == "StartTag" and t[1] == "col":
            self.insert_html(t)
            self.stack.pop()
            return
        if k == "EndTag" and t[1] == "colgroup":
            if not self.current.html("colgroup"):
                return
            self.stack.pop()
            self.mode = "in_table"
            return
        if k == "EndTag" and t[1] == "col":
            return
        if (k in ("StartTag", "EndTag")) and t[1] == "template":
            return
        if k == "EOF":
            self.m_in_body(t)
            return
        if not self.current.html("colgroup"):
            return
        self.stack.pop()
        self.mode = "in_table"
        self.dispatch(self.mode, t)

    def m_in_table_body(self, t):
        k = t[0]
        if k == "StartTag" and t[1] == "tr":
            self.clear_stack_to("tbody", "tfoot", "thead", "template", "html")
            self.insert_html(t)
            self.mode = "in_row"
            return
        if k == "StartTag" and t[1] in ("th", "td"):
            self.clear_stack_to("tbody", "tfoot", "thead", "template", "html")
            self.insert_html(("StartTag", "tr", [], False))
            self.mode = "in_row"
            self.dispatch(self.mode, t)
            return
        if k == "EndTag" and t[1] in ("tbody", "tfoot", "thead"):
            if not self.in_table_scope(t[1]):
                return
            self.clear_stack_to("tbody", "tfoot", "thead", "template", "html")
            self.stack.pop()
            self.mode = "in_table"
            return
        if (k == "StartTag" and t[1] in ("caption", "col", "colgroup", "tbody", "tfoot", "thead")) or (k == "EndTag" and t[1] == "table"):
            if not self.in_table_scope("tbody", "thead", "tfoot"):
                return
            self.clear_stack_to("tbody", "tfoot", "thead", "template", "html")
            self.stack.pop()
            self.mode = "in_table"
            self.dispatch(self.mode, t)
            return
        if k == "EndTag" and t[1] in ("body", "caption", "col", "colgroup", "html", "td", "th", "tr"):
            return
        self.m_in_table(t)

    def m_in_row(self, t):
        k = t[0]
        if k == "StartTag" and t[1] in ("th", "td"):
            self.clear_stack_to("tr", "template", "html")
            self.insert_html(t)
            self.mode = "in_cell"
            self.afe.append(MARKER)
            return
        if k == "EndTag" and t[1] == "tr":
            if not self.in_table_scope("tr"):
                return
            self.clear_stack_to("tr", "template", "html")
            self.stack.pop()
            self.mode = "in_table_body"
            return
        if (k == "StartTag" and t[1] in ("caption", "col", "colgroup", "tbody", "tfoot", "thead", "tr")) or (k == "EndTag" and t[1] == "table"):
            if not self.in_table_scope("tr"):
                return
            self.clear_stack_to("tr", "template", "html")
            self.stack.pop()
            self.mode = "in_table_body"
            self.dispatch(self.mode, t)
            return
        if k == "EndTag" and t[1] in ("tbody", "tfoot", "thead"):
            if not self.in_table_scope(t[1]):
                return
            if not self.in_table_scope("tr"):
                return
            self.clear_stack_to("tr", "template", "html")
            self.stack.pop()
            self.mode = "in_table_body"
            self.dispatch(self.mode, t)
            return
        if k == "EndTag" and t[1] in ("body", "caption", "col", "colgroup", "html", "td", "th"):
            return
        self.m_in_table(t)

    def close_cell(self):
        self.generate_implied_end_tags()
        self.pop_until("td", "th")
        self.clear_afe_to_marker()
        self.mode = "in_row"

    def m_in_cell(self, t):
        k = t[0]
        if k == "EndTag" and t[1] in ("td", "th"):
            if not self.in_table_scope(t[1]):
                return
            self.generate_implied_end_tags()
            self.pop_until(t[1])
            self.clear_afe_to_marker()
            self.mode = "in_row"
            return
        if k == "StartTag" and t[1] in ("caption", "col", "colgroup", "tbody", "td", "tfoot", "th", "thead", "tr"):
            if not self.in_table_scope("td", "th"):
                return
            self.close_cell()
            self.dispatch(self.mode, t)
            return
        if k == "EndTag" and t[1] in ("body", "caption", "col", "colgroup", "html"):
            return
        if k == "EndTag" and t[1] in ("table", "tbody", "tfoot", "thead", "tr"):
            if not self.in_table_scope(t[1]):
                return
            self.close_cell()
            self.dispatch(self.mode, t)
            return
        self.m_in_body(t)

    # -- select ---------------------------------------------------------------------------------------------------
    def m_in_select(self, t):
        k = t[0]
        if k == "Character":
            if t[1] == "\x00":
                return
            self.insert_char(t[1])
            return
        if k == "Comment":
            self.insert_comment(t[1])
            return
        if k == "DOCTYPE":
            return
        if k == "StartTag":
            n = t[1]
            if n == "html":
                self.m_in_body(t)
                return
            if n == "option":
                if self.current.html("option"):
                    self.stack.pop()
                self.insert_html(t)
                return
            if n == "optgroup":
                if self.current.html("option"):
                    self.stack.pop()
                if self.current.html("optgroup"):
                    self.stack.pop()
                self.insert_html(t)
                return
            if n == "select":
                if not self.in_select_scope("select"):
                    return
                self.pop_until("select")
                self.reset_insertion_mode()
                return
            if n in ("input", "keygen", "textarea"):
                if not self.in_select_scope("select"):
                    return
                self.pop_until("select")
                self.reset_insertion_mode()
                self.dispatch(self.mode, t)
                return
            if n in ("script", "template"):
                self.m_in_head(t)
                return
            return
        if k == "EndTag":
            n = t[1]
            if n == "optgroup":
                if self.current.html("option") and len(self.stack) >= 2 and self.stack[-2].html("optgroup"):
                    self.stack.pop()
                if self.current.html("optgroup"):
                    self.stack.pop()
                return
            if n == "option":
                if self.current.html("option"):
                    self.stack.pop()
                return
            if n == "select":
                if not self.in_select_scope("select"):
                    return
                self.pop_until("select")
                self.reset_insertion_mode()
                return
            if n == "template":
                return
            return
        if k == "EOF":
            self.m_in_body(t)
            return

    def m_in_select_in_table(self, t):
        k = t[0]
        if k == "StartTag" and t[1] in ("caption", "table", "tbody", "tfoot", "thead", "tr", "td", "th"):
            self.pop_until("select")
            self.reset_insertion_mode()
            self.dispatch(self.mode, t)
            return
        if k == "EndTag" and t[1] in ("caption", "table", "tbody", "tfoot", "thead", "tr", "td", "th"):
            if not self.in_table_scope(t[1]):
                return
            self.pop_until("select")
            self.reset_insertion_mode()
            self.dispatch(self.mode, t)
            return
        self.m_in_select(t)

    # -- after body etc. ---------------------------------------------------------------------------------------------
    def m_after_body(self, t):
        k = t[0]
        if k == "Character" and t[1] in WS:
            self.m_in_body(t)
            return
        if k == "Comment":
            self.insert_comment(t[1], self.stack[0])
            return
        if k == "DOCTYPE":
            return
        if k == "StartTag" and t[1] == "html":
            self.m_in_body(t)
            return
        if k == "EndTag" and t[1] == "html":
            if self.context is not None:
                return
            self.mode = "after_after_body"
            return
        if k == "EOF":
            self.stopped = True
            return
        self.mode = "in_body"
        self.dispatch(self.mode, t)

    def m_in_frameset(self, t):
        k = t[0]
        if k == "Character" and t[1] in WS:
            self.insert_char(t[1])
            return
        if k == "Comment":
            self.insert_comment(t[1])
            return
        if k == "DOCTYPE":
            return
        if k == "StartTag":
            n = t[1]
            if n == "html":
                self.m_in_body(t)
                return
            if n == "frameset":
                self.insert_html(t)
                return
            if n == "frame":
                self.insert_html(t)
                self.stack.pop()
                return
            if n == "noframes":
                self.m_in_head(t)
                return
            return
        if k == "EndTag" and t[1] == "frameset":
            if self.current.html("html") and len(self.stack) == 1:
                return
            self.stack.pop()
            if self.context is None and not self.current.html("frameset"):
                self.mode = "after_frameset"
            return
        if k == "EOF":
            self.stopped = True
            return

    def m_after_frameset(self, t):
        k = t[0]
        if k == "Character" and t[1] in WS:
            self.insert_char(t[1])
            return
        if k == "Comment":
            self.insert_comment(t[1])
            return
        if k == "DOCTYPE":
            return
        if k == "StartTag" and t[1] == "html":
            self.m_in_body(t)
            return
        if k == "EndTag" and t[1] == "html":
            self.mode = "after_after_frameset"
            return
        if k == "StartTag" and t[1] == "noframes":
            self.m_in_head(t)
            return
        if k == "EOF":
            self.stopped = True
            return

    def m_after_after_body(self, t):
        k = t[0]
        if k == "Comment":
            self.insert_comment(t[1], self.doc)
            return
        if k == "DOCTYPE" or (k == "Character" and t[1] in WS) or (k == "StartTag" and t[1] == "html"):
            self.m_in_body(t)
            return
        if k == "EOF":
            self.stopped = True
            return
        self.mode = "in_body"
        self.dispatch(self.mode, t)

    def m_after_after_frameset(self, t):
        k = t[0]
        if k == "Comment":
            self.insert_comment(t[1], self.doc)
            return
        if k == "DOCTYPE" or (k == "Character" and t[1] in WS) or (k == "StartTag" and t[1] == "html"):
            self.m_in_body(t)
            return
        if k == "EOF":
            self.stopped = True
            return
        if k == "StartTag" and t[1] == "noframes":
            self.m_in_head(t)
            return

    # -- foreign content ------------------------------------------------------------------------------------------------
    def adjust_foreign_token(self, t, ns):
        attrs = []
        for k, v in t[2]:
            if ns == MATHML and k == "definitionurl":
                k = "definitionURL"
            if ns == SVG and k in SVG_ATTRS:
                k = SVG_ATTRS[k]
            if k in FOREIGN_ATTRS:
                attrs.append((FOREIGN_ATTRS[k], v))
            else:
                attrs.append(((None, k), v))
        return ("StartTagAdj", t[1], attrs, t[3])

    def insert_foreign_adjusted(self, tok, ns):
        el = Node("element", tok[1], ns, list(tok[2]))
        parent, before = self.appropriate_place()
        self._insert(parent, before, el)
        self.stack.append(el)
        return el

    def foreign(self, t):
        k = t[0]
        if k == "Character":
            ch = t[1]
            if ch == "\x00":
                self.insert_char("�")
                return
            self.insert_char(ch)
            if ch not in WS:
                self.frameset_ok = False
            return
        if k == "Comment":
            self.insert_comment(t[1])
            return
        if k == "DOCTYPE":
            return
        if k == "StartTag":
            n = t[1]
            is_font_break = n == "font" and any(a in ("color", "face", "size") for a, v in t[2])
            if n in BREAKOUT or is_font_break:
                if self.context is not None:
                    # fragment case: process as "any other start tag"
                    pass
                else:
                    self.stack.pop()
                    while not (self.is_mathml_text_ip(self.current) or self.is_html_ip(self.current) or self.current.ns == HTML):
                        self.stack.pop()
                    self.process(t)
                    return
            acn = self.adjusted_current_node()
            ns = acn.ns
            name = n
            if ns == SVG and name in SVG_TAGS:
                name = SVG_TAGS[name]
            tok = self.adjust_foreign_token(("StartTag", name, t[2], t[3]), ns)
            self.insert_foreign_adjusted(tok, ns)
            if t[3]:
                self.stack.pop()
            return
        if k == "EndTag":
            n = t[1]
            i = len(self.stack) - 1
            node = self.stack[i]
            while True:
                if node.name.lower() == n:
                    del self.stack[i:]
                    return
                i -= 1
                if i < 0:
                    return
                node = self.stack[i]
                if node.ns == HTML:
                    break
            self.dispatch(self.mode, t)

    # -- output ----------------------------------------------------------------------------------------------------
    def canonical(self):
        root = self.doc
        if self.context is not None:
            root = self.doc.children[0]
        return canon_children(root)


def canon_children(node):
    out = []
    for c in node.children:
        if c.kind == "text":
            if c.data == "":
                continue
            if out and out[-1][0] == "text":
                out[-1] = ("text", out[-1][1] + c.data)
            else:
                out.append(("text", c.data))
        elif c.kind == "comment":
            out.append(("comment", c.data))
        elif c.kind == "doctype":
            out.append(("doctype", c.name or "", c.public or "", c.system or ""))
        else:
            out.append(("elem", c.ns, c.name, tuple(c.attrs), canon_children(c)))
    return tuple(out)


def skeleton(tb):
    """canonical suspended state of the reference (closed-subtree abstraction, DESIGN 3.3)"""
    live = {}
    for i, n in enumerate(tb.stack):
        live[id(n)] = ("S", i)
    if tb.head is not None and id(tb.head) not in live:
        live[id(tb.head)] = ("H", 0)
    for n in list(tb.stack) + ([tb.head] if tb.head is not None else []):
        p = n.parent
        while p is not None and p.kind == "element":
            if id(p) not in live:
                live[id(p)] = ("A", 0)
            p = p.parent

    def skel(node):
        kids = []
        run = None
        for c in node.children:
            if c.kind == "element" and id(c) in live:
                if run is not None:
                    kids.append(run)
                    run = None
                kids.append((live[id(c)], c.ns, c.name, tuple(c.attrs), skel(c)))
            else:
                run = {"text": "T", "element": "E", "comment": "C", "doctype": "D"}[c.kind]
        if run is not None:
            kids.append(run)
        return tuple(kids)
    afe = []
    for e in tb.afe:
        if e is MARKER:
            afe.append("marker")
        elif e in tb.stack:
            afe.append(("S", tb.stack.index(e)))
        else:
            afe.append(("closed", e.ns, e.name, tuple(e.attrs)))
    form = None if tb.form is None else (("S", tb.stack.index(tb.form)) if tb.form in tb.stack else "closed")
    head = None if tb.head is None else (("S", tb.stack.index(tb.head)) if tb.head in tb.stack else "H")
    pend = "".join(tb.pending_table_text)
    return (tb.mode, tb.original_mode if tb.mode in ("text", "in_table_text") else None, skel(tb.doc), tuple(afe), form, head,
            tb.frameset_ok, tb.quirks == "quirks", tb.ignore_lf, _text_class(pend), tb.tok.snapshot())


def _text_class(text):
    out = []
    i, n = 0, len(text)
    while i < n:
        ws = text[i] in WS
        j = i
        while j < n and (text[j] in WS) == ws:
            j += 1
        if ws:
            out.append("\n" if text[i] == "\n" else " ")
            if j - i > 1:
                out.append(" ")
        else:
            out.append("x")
        i = j
    return "".join(out)


def suspended(text, scripting=False, context=None):
    tb = TreeBuilder(text, scripting=scripting, context=context, final=False)
    tb.run()
    return skeleton(tb)


DEVIATIONS = []      # ("sticky-ignore-lf" was repaired in /repo; the emulation stays available for triage)


def classify(text, observed, scripting=False, context=None):
    """smallest set of modelled html5lib deviations under which the reference reproduces `observed` (or None)"""
    import itertools
    for k in range(1, len(DEVIATIONS) + 1):
        for combo in itertools.combinations(DEVIATIONS, k):
            try:
                if parse(text, scripting, context, frozenset(combo)) == observed:
                    return combo
            except Exception:
                pass
    return None


def parse(text, scripting=False, context=None, dev=frozenset()):
    tb = TreeBuilder(text, scripting=scripting, context=context, dev=dev)
    tb.run()
    return tb.canonical()
