"""Reference HTML tokenizer, written from the WHATWG standard (section 13.2.5, June 2020 text).

One method per state of the standard, explicit reconsume, no regex scanning.  Independent of html5lib:
named references come from html.entities.html5, the C1 remap table from the cp1252 codec.

Tokens (tuples):
  ("DOCTYPE", name|None, public|None, system|None, force_quirks)
  ("StartTag", name, [(attr, value), ...] (first duplicate wins), self_closing)
  ("EndTag", name)           (attributes / self-closing flag of end tags are dropped, as the standard says)
  ("Comment", data)
  ("Character", one_char)
  ("EOF",)
Parse errors are not modelled (neither property compares them).

Usage:   t = Tokenizer(text, final=True); for tok in t.run(): ...   (consumer may assign t.state between tokens)
With final=False the tokenizer stops when the input is exhausted or when a decision needs characters
that are not there yet; t.pos then points at the first unconsumed character (suspension semantics).
"""
from html.entities import html5 as _NAMED

NAMED = dict(_NAMED)
_MAXNAME = max(len(k) for k in NAMED)
_PREFIXES = set()
for _k in NAMED:
    for _i in range(1, len(_k) + 1):
        _PREFIXES.add(_k[:_i])

C1 = {}
for _b in range(0x80, 0xA0):
    try:
        C1[_b] = bytes([_b]).decode("cp1252")
    except UnicodeDecodeError:
        pass

WS = "\t\n\x0c "
ALPHA = "abcdefghijklmnopqrstuvwxyzABCDEFGHIJKLMNOPQRSTUVWXYZ"
UPPER = "ABCDEFGHIJKLMNOPQRSTUVWXYZ"
DIGIT = "0123456789"
HEX = "0123456789abcdefABCDEF"
ALNUM = ALPHA + DIGIT

EOF = None


def lower(c):
    return c.lower() if c in UPPER else c


class NeedMore(Exception):
    pass


class Tokenizer(object):
    def __init__(self, text, final=True, state="data", last_start_tag=None, cdata_allowed=None):
        self.held = ""
        if not final and text.endswith("\r"):
            # the fate of a trailing CR depends on the next character: leave it unconsumed
            text, self.held = text[:-1], "\r"
        self.text = preprocess(text)
        self.final = final
        self.pos = 0
        self.state = state
        self.return_state = None
        self.last_start_tag = last_start_tag
        self.cdata_allowed = cdata_allowed or (lambda: False)
        self.tok = None            # tag / comment / doctype under construction (a dict)
        self.attr = None           # [name, value, is_duplicate] under construction
        self.temp = ""
        self.code = 0
        self.out = []
        self.done = False
        self.suspended = False

    # -- helpers ---------------------------------------------------------------------------------
    def emit(self, t):
        self.out.append(t)

    def emit_chars(self, s):
        for ch in s:
            self.out.append(("Character", ch))

    def new_tag(self, kind):
        self.tok = {"kind": kind, "name": "", "attrs": [], "self_closing": False}
        self.attr = None

    def start_attr(self, first=""):
        self.attr = [first, "", False]      # name, value, is_duplicate
        self.tok["attrs"].append(self.attr)

    def finish_attr_name(self):
        """On leaving the attribute name state: a duplicate attribute is dropped (with its value)."""
        a = self.attr
        for other in self.tok["attrs"]:
            if other is a:
                break
            if other[0] == a[0] and not other[2]:
                a[2] = True
                break

    def emit_tag(self):
        t = self.tok
        if t["kind"] == "StartTag":
            attrs = [(a[0], a[1]) for a in t["attrs"] if not a[2]]
            self.last_start_tag = t["name"]
            self.emit(("StartTag", t["name"], attrs, t["self_closing"]))
        else:
            self.emit(("EndTag", t["name"]))
        self.tok = None
        self.attr = None

    def emit_comment(self):
        self.emit(("Comment", self.tok["data"]))
        self.tok = None

    def emit_doctype(self):
        t = self.tok
        self.emit(("DOCTYPE", t["name"], t["public"], t["system"], t["force_quirks"]))
        self.tok = None

    def appropriate_end_tag(self):
        return self.tok is not None and self.tok["kind"] == "EndTag" and self.last_start_tag is not None and \
            self.tok["name"] == self.last_start_tag

    def in_attr(self):
        return self.return_state in ("attribute_value_dq", "attribute_value_sq", "attribute_value_unq")

    def flush_code_points(self):
        if self.in_attr():
            self.attr[1] += self.temp
        else:
            self.emit_chars(self.temp)

    def peek(self, n):
        """next n characters (may be shorter at real EOF); raises NeedMore if undecidable yet"""
        s = self.text[self.pos:self.pos + n]
        if len(s) < n and not self.final:
            raise NeedMore()
        return s

    # -- main loop -------------------------------------------------------------------------------
    def run(self):
        """generator of tokens; the consumer may change self.state between tokens"""
        while not self.done:
            del self.out[:]
            if self.pos >= len(self.text):
                if not self.final:
                    self.suspended = True
                    return
                c = EOF
            else:
                c = self.text[self.pos]
            start = self.pos
            saved = (self.state, self.return_state, self.temp, self.code)
            try:
                self.pos += 1 if c is not EOF else 0
                getattr(self, "s_" + self.state)(c)
            except NeedMore:
                # undo this step: the decision needs characters that have not arrived
                self.pos = start
                (self.state, self.return_state, self.temp, self.code) = saved
                del self.out[:]
                self.suspended = True
                return
            for t in list(self.out):
                yield t
        return

    # the standard's "reconsume in X": we implement by stepping the position back
    def _re(self, c, state):
        if c is not EOF:
            self.pos -= 1
        self.state = state

    def _eof(self):
        self.emit(("EOF",))
        self.done = True

    # -- 13.2.5.1 .. : states ----------------------------------------------------------------------
    def s_data(self, c):
        if c == "&":
            self.return_state = "data"
            self.state = "character_reference"
        elif c == "<":
            self.state = "tag_open"
        elif c is EOF:
            self._eof()
        else:                       # NUL: parse error, emitted as is
            self.emit(("Character", c))

    def s_rcdata(self, c):
        if c == "&":
            self.return_state = "rcdata"
            self.state = "character_reference"
        elif c == "<":
            self.state = "rcdata_lt"
        elif c == "\x00":
            self.emit(("Character", "�"))
        elif c is EOF:
            self._eof()
        else:
            self.emit(("Character", c))

    def s_rawtext(self, c):
        if c == "<":
            self.state = "rawtext_lt"
        elif c == "\x00":
            self.emit(("Character", "�"))
        elif c is EOF:
            self._eof()
        else:
            self.emit(("Character", c))

    def s_script_data(self, c):
        if c == "<":
            self.state = "script_data_lt"
        elif c == "\x00":
            self.emit(("Character", "�"))
        elif c is EOF:
            self._eof()
        else:
            self.emit(("Character", c))

    def s_plaintext(self, c):
        if c == "\x00":
            self.emit(("Character", "�"))
        elif c is EOF:
            self._eof()
        else:
            self.emit(("Character", c))

    def s_tag_open(self, c):
        if c == "!":
            self.state = "markup_declaration_open"
        elif c == "/":
            self.state = "end_tag_open"
        elif c is not EOF and c in ALPHA:
            self.new_tag("StartTag")
            self._re(c, "tag_name")
        elif c == "?":
            self.tok = {"kind": "Comment", "data": ""}
            self._re(c, "bogus_comment")
        elif c is EOF:
            self.emit(("Character", "<"))
            self._eof()
        else:
            self.emit(("Character", "<"))
            self._re(c, "data")

    def s_end_tag_open(self, c):
        if c is not EOF and c in ALPHA:
            self.new_tag("EndTag")
            self._re(c, "tag_name")
        elif c == ">":
            self.state = "data"
        elif c is EOF:
            self.emit_chars("</")
            self._eof()
        else:
            self.tok = {"kind": "Comment", "data": ""}
            self._re(c, "bogus_comment")

    def s_tag_name(self, c):
        if c is EOF:
            self._eof()
        elif c in WS:
            self.state = "before_attribute_name"
        elif c == "/":
            self.state = "self_closing_start_tag"
        elif c == ">":
            self.state = "data"
            self.emit_tag()
        elif c == "\x00":
            self.tok["name"] += "�"
        else:
            self.tok["name"] += lower(c)

    # RCDATA / RAWTEXT / script end-tag recognition
    def _lt(self, c, base, nxt):
        if c == "/":
            self.temp = ""
            self.state = nxt
        else:
            self.emit(("Character", "<"))
            self._re(c, base)

    def s_rcdata_lt(self, c):
        self._lt(c, "rcdata", "rcdata_end_tag_open")

    def s_rawtext_lt(self, c):
        self._lt(c, "rawtext", "rawtext_end_tag_open")

    def _end_tag_open(self, c, base, nxt):
        if c is not EOF and c in ALPHA:
            self.new_tag("EndTag")
            self._re(c, nxt)
        else:
            self.emit_chars("</")
            self._re(c, base)

    def s_rcdata_end_tag_open(self, c):
        self._end_tag_open(c, "rcdata", "rcdata_end_tag_name")

    def s_rawtext_end_tag_open(self, c):
        self._end_tag_open(c, "rawtext", "rawtext_end_tag_name")

    def _end_tag_name(self, c, base):
        if c is not EOF and c in WS and self.appropriate_end_tag():
            self.state = "before_attribute_name"
        elif c == "/" and self.appropriate_end_tag():
            self.state = "self_closing_start_tag"
        elif c == ">" and self.appropriate_end_tag():
            self.state = "data"
            self.emit_tag()
        elif c is not EOF and c in ALPHA:
            self.tok["name"] += lower(c)
            self.temp += c
        else:
            self.emit_chars("</" + self.temp)
            self.tok = None
            self._re(c, base)

    def s_rcdata_end_tag_name(self, c):
        self._end_tag_name(c, "rcdata")

    def s_rawtext_end_tag_name(self, c):
        self._end_tag_name(c, "rawtext")

    def s_script_data_lt(self, c):
        if c == "/":
            self.temp = ""
            self.state = "script_data_end_tag_open"
        elif c == "!":
            self.state = "script_data_escape_start"
            self.emit_chars("<!")
        else:
            self.emit(("Character", "<"))
            self._re(c, "script_data")

    def s_script_data_end_tag_open(self, c):
        self._end_tag_open(c, "script_data", "script_data_end_tag_name")

    def s_script_data_end_tag_name(self, c):
        self._end_tag_name(c, "script_data")

    def s_script_data_escape_start(self, c):
        if c == "-":
            self.state = "script_data_escape_start_dash"
            self.emit(("Character", "-"))
        else:
            self._re(c, "script_data")

    def s_script_data_escape_start_dash(self, c):
        if c == "-":
            self.state = "script_data_escaped_dash_dash"
            self.emit(("Character", "-"))
        else:
            self._re(c, "script_data")

    def s_script_data_escaped(self, c):
        if c == "-":
            self.state = "script_data_escaped_dash"
            self.emit(("Character", "-"))
        elif c == "<":
            self.state = "script_data_escaped_lt"
        elif c == "\x00":
            self.emit(("Character", "�"))
        elif c is EOF:
            self._eof()
        else:
            self.emit(("Character", c))

    def s_script_data_escaped_dash(self, c):
        if c == "-":
            self.state = "script_data_escaped_dash_dash"
            self.emit(("Character", "-"))
        elif c == "<":
            self.state = "script_data_escaped_lt"
        elif c == "\x00":
            self.state = "script_data_escaped"
            self.emit(("Character", "�"))
        elif c is EOF:
            self._eof()
        else:
            self.state = "script_data_escaped"
            self.emit(("Character", c))

    def s_script_data_escaped_dash_dash(self, c):
        if c == "-":
            self.emit(("Character", "-"))
        elif c == "<":
            self.state = "script_data_escaped_lt"
        elif c == ">":
            self.state = "script_data"
            self.emit(("Character", ">"))
        elif c == "\x00":
            self.state = "script_data_escaped"
            self.emit(("Character", "�"))
        elif c is EOF:
            self._eof()
        else:
            self.state = "script_data_escaped"
            self.emit(("Character", c))

    def s_script_data_escaped_lt(self, c):
        if c == "/":
            self.temp = ""
            self.state = "script_data_escaped_end_tag_open"
        elif c is not EOF and c in ALPHA:
            self.temp = ""
            self.emit(("Character", "<"))
            self._re(c, "script_data_double_escape_start")
        else:
            self.emit(("Character", "<"))
            self._re(c, "script_data_escaped")

    def s_script_data_escaped_end_tag_open(self, c):
        self._end_tag_open(c, "script_data_escaped", "script_data_escaped_end_tag_name")

    def s_script_data_escaped_end_tag_name(self, c):
        self._end_tag_name(c, "script_data_escaped")

    def s_script_data_double_escape_start(self, c):
        if c is not EOF and (c in WS or c in "/>"):
            self.state = "script_data_double_escaped" if self.temp == "script" else "script_data_escaped"
            self.emit(("Character", c))
        elif c is not EOF and c in ALPHA:
            self.temp += lower(c)
            self.emit(("Character", c))
        else:
            self._re(c, "script_data_escaped")

    def s_script_data_double_escaped(self, c):
        if c == "-":
            self.state = "script_data_double_escaped_dash"
            self.emit(("Character", "-"))
        elif c == "<":
            self.state = "script_data_double_escaped_lt"
            self.emit(("Character", "<"))
        elif c == "\x00":
            self.emit(("Character", "�"))
        elif c is EOF:
            self._eof()
        else:
            self.emit(("Character", c))

    def s_script_data_double_escaped_dash(self, c):
        if c == "-":
            self.state = "script_data_double_escaped_dash_dash"
            self.emit(("Character", "-"))
        elif c == "<":
            self.state = "script_data_double_escaped_lt"
            self.emit(("Character", "<"))
        elif c == "\x00":
            self.state = "script_data_double_escaped"
            self.emit(("Character", "�"))
        elif c is EOF:
            self._eof()
        else:
            self.state = "script_data_double_escaped"
            self.emit(("Character", c))

    def s_script_data_double_escaped_dash_dash(self, c):
        if c == "-":
            self.emit(("Character", "-"))
        elif c == "<":
            self.state = "script_data_double_escaped_lt"
            self.emit(("Character", "<"))
        elif c == ">":
            self.state = "script_data"
            self.emit(("Character", ">"))
        elif c == "\x00":
            self.state = "script_data_double_escaped"
            self.emit(("Character", "�"))
        elif c is EOF:
            self._eof()
        else:
            self.state = "script_data_double_escaped"
            self.emit(("Character", c))

    def s_script_data_double_escaped_lt(self, c):
        if c == "/":
            self.temp = ""
            self.state = "script_data_double_escape_end"
            self.emit(("Character", "/"))
        else:
            self._re(c, "script_data_double_escaped")

    def s_script_data_double_escape_end(self, c):
        if c is not EOF and (c in WS or c in "/>"):
            self.state = "script_data_escaped" if self.temp == "script" else "script_data_double_escaped"
            self.emit(("Character", c))
        elif c is not EOF and c in ALPHA:
            self.temp += lower(c)
            self.emit(("Character", c))
        else:
            self._re(c, "script_data_double_escaped")

    # attributes
    def s_before_attribute_name(self, c):
        if c is not EOF and c in WS:
            pass
        elif c is EOF or c in "/>":
            self._re(c, "after_attribute_name")
        elif c == "=":
            self.start_attr("=")
            self.state = "attribute_name"
        else:
            self.start_attr("")
            self._re(c, "attribute_name")

    def s_attribute_name(self, c):
        if c is EOF or c in WS or c in "/>":
            self.finish_attr_name()
            self._re(c, "after_attribute_name")
        elif c == "=":
            self.finish_attr_name()
            self.state = "before_attribute_value"
        elif c == "\x00":
            self.attr[0] += "�"
        else:
            self.attr[0] += lower(c)

    def s_after_attribute_name(self, c):
        if c is EOF:
            self._eof()
        elif c in WS:
            pass
        elif c == "/":
            self.state = "self_closing_start_tag"
        elif c == "=":
            self.state = "before_attribute_value"
        elif c == ">":
            self.state = "data"
            self.emit_tag()
        else:
            self.start_attr("")
            self._re(c, "attribute_name")

    def s_before_attribute_value(self, c):
        if c is not EOF and c in WS:
            pass
        elif c == '"':
            self.state = "attribute_value_dq"
        elif c == "'":
            self.state = "attribute_value_sq"
        elif c == ">":
            self.state = "data"
            self.emit_tag()
        else:
            self._re(c, "attribute_value_unq")

    def _attr_value_quoted(self, c, q, me):
        if c == q:
            self.state = "after_attribute_value_quoted"
        elif c == "&":
            self.return_state = me
            self.state = "character_reference"
        elif c == "\x00":
            self.attr[1] += "�"
        elif c is EOF:
            self._eof()
        else:
            self.attr[1] += c

    def s_attribute_value_dq(self, c):
        self._attr_value_quoted(c, '"', "attribute_value_dq")

    def s_attribute_value_sq(self, c):
        self._attr_value_quoted(c, "'", "attribute_value_sq")

    def s_attribute_value_unq(self, c):
        if c is EOF:
            self._eof()
        elif c in WS:
            self.state = "before_attribute_name"
        elif c == "&":
            self.return_state = "attribute_value_unq"
            self.state = "character_reference"
        elif c == ">":
            self.state = "data"
            self.emit_tag()
        elif c == "\x00":
            self.attr[1] += "�"
        else:
            self.attr[1] += c

    def s_after_attribute_value_quoted(self, c):
        if c is EOF:
            self._eof()
        elif c in WS:
            self.state = "before_attribute_name"
        elif c == "/":
            self.state = "self_closing_start_tag"
        elif c == ">":
            self.state = "data"
            self.emit_tag()
        else:
            self._re(c, "before_attribute_name")

    def s_self_closing_start_tag(self, c):
        if c == ">":
            self.tok["self_closing"] = True
            self.state = "data"
            self.emit_tag()
        elif c is EOF:
            self._eof()
        else:
            self._re(c, "before_attribute_name")

    # comments
    def s_bogus_comment(self, c):
        if c == ">":
            self.state = "data"
            self.emit_comment()
        elif c is EOF:
            self.emit_comment()
            self._eof()
        elif c == "\x00":
            self.tok["data"] += "�"
        else:
            self.tok["data"] += c

    def s_markup_declaration_open(self, c):
        # c has been consumed by the main loop; the standard looks at "the next few characters"
        if c is not EOF:
            self.pos -= 1
        two = self.peek(2)
        if two == "--":
            self.pos += 2
            self.tok = {"kind": "Comment", "data": ""}
            self.state = "comment_start"
            return
        seven = self.text[self.pos:self.pos + 7]
        if seven.lower() == "doctype":
            self.pos += 7
            self.state = "doctype"
            return
        if seven == "[CDATA[":
            self.pos += 7
            if self.cdata_allowed():
                self.state = "cdata_section"
            else:
                self.tok = {"kind": "Comment", "data": "[CDATA["}
                self.state = "bogus_comment"
            return
        if not self.final and len(seven) < 7 and ("doctype".startswith(seven.lower()) or "[CDATA[".startswith(seven)
                                                  or "--".startswith(seven)):
            raise NeedMore()
        self.tok = {"kind": "Comment", "data": ""}
        self.state = "bogus_comment"

    def s_comment_start(self, c):
        if c == "-":
            self.state = "comment_start_dash"
        elif c == ">":
            self.state = "data"
            self.emit_comment()
        else:
            self._re(c, "comment")

    def s_comment_start_dash(self, c):
        if c == "-":
            self.state = "comment_end"
        elif c == ">":
            self.state = "data"
            self.emit_comment()
        elif c is EOF:
            self.emit_comment()
            self._eof()
        else:
            self.tok["data"] += "-"
            self._re(c, "comment")

    def s_comment(self, c):
        if c == "<":
            self.tok["data"] += c
            self.state = "comment_lt"
        elif c == "-":
            self.state = "comment_end_dash"
        elif c == "\x00":
            self.tok["data"] += "�"
        elif c is EOF:
            self.emit_comment()
            self._eof()
        else:
            self.tok["data"] += c

    def s_comment_lt(self, c):
        if c == "!":
            self.tok["data"] += c
            self.state = "comment_lt_bang"
        elif c == "<":
            self.tok["data"] += c
        else:
            self._re(c, "comment")

    def s_comment_lt_bang(self, c):
        if c == "-":
            self.state = "comment_lt_bang_dash"
        else:
            self._re(c, "comment")

    def s_comment_lt_bang_dash(self, c):
        if c == "-":
            self.state = "comment_lt_bang_dash_dash"
        else:
            self._re(c, "comment_end_dash")

    def s_comment_lt_bang_dash_dash(self, c):
        # ">" or EOF: fine; anything else: nested-comment parse error; all reconsume in comment end
        self._re(c, "comment_end")

    def s_comment_end_dash(self, c):
        if c == "-":
            self.state = "comment_end"
        elif c is EOF:
            self.emit_comment()
            self._eof()
        else:
            self.tok["data"] += "-"
            self._re(c, "comment")

    def s_comment_end(self, c):
        if c == ">":
            self.state = "data"
            self.emit_comment()
        elif c == "!":
            self.state = "comment_end_bang"
        elif c == "-":
            self.tok["data"] += "-"
        elif c is EOF:
            self.emit_comment()
            self._eof()
        else:
            self.tok["data"] += "--"
            self._re(c, "comment")

    def s_comment_end_bang(self, c):
        if c == "-":
            self.tok["data"] += "--!"
            self.state = "comment_end_dash"
        elif c == ">":
            self.state = "data"
            self.emit_comment()
        elif c is EOF:
            self.emit_comment()
            self._eof()
        else:
            self.tok["data"] += "--!"
            self._re(c, "comment")

    # DOCTYPE
    def _new_doctype(self):
        self.tok = {"kind": "DOCTYPE", "name": None, "public": None, "system": None, "force_quirks": False}

    def _doctype_eof(self):
        self.tok["force_quirks"] = True
        self.emit_doctype()
        self._eof()

    def s_doctype(self, c):
        if c is not EOF and c in WS:
            self.state = "before_doctype_name"
        elif c == ">":
            self._re(c, "before_doctype_name")
        elif c is EOF:
            self._new_doctype()
            self._doctype_eof()
        else:
            self._re(c, "before_doctype_name")

    def s_before_doctype_name(self, c):
        if c is not EOF and c in WS:
            pass
        elif c == "\x00":
            self._new_doctype()
            self.tok["name"] = "�"
            self.state = "doctype_name"
        elif c == ">":
            self._new_doctype()
            self.tok["force_quirks"] = True
            self.state = "data"
            self.emit_doctype()
        elif c is EOF:
            self._new_doctype()
            self._doctype_eof()
        else:
            self._new_doctype()
            self.tok["name"] = lower(c)
            self.state = "doctype_name"

    def s_doctype_name(self, c):
        if c is EOF:
            self._doctype_eof()
        elif c in WS:
            self.state = "after_doctype_name"
        elif c == ">":
            self.state = "data"
            self.emit_doctype()
        elif c == "\x00":
            self.tok["name"] += "�"
        else:
            self.tok["name"] += lower(c)

    def s_after_doctype_name(self, c):
        if c is EOF:
            self._doctype_eof()
        elif c in WS:
            pass
        elif c == ">":
            self.state = "data"
            self.emit_doctype()
        else:
            self.pos -= 1
            six = self.text[self.pos:self.pos + 6]
            if len(six) < 6 and not self.final and ("public".startswith(six.lower()) or "system".startswith(six.lower())):
                self.pos += 1
                raise NeedMore()
            if six.lower() == "public":
                self.pos += 6
                self.state = "after_doctype_public_keyword"
            elif six.lower() == "system":
                self.pos += 6
                self.state = "after_doctype_system_keyword"
            else:
                self.tok["force_quirks"] = True
                self.state = "bogus_doctype"        # reconsume: pos already stepped back

    def s_after_doctype_public_keyword(self, c):
        if c is EOF:
            self._doctype_eof()
        elif c in WS:
            self.state = "before_doctype_public_identifier"
        elif c == '"':
            self.tok["public"] = ""
            self.state = "doctype_public_identifier_dq"
        elif c == "'":
            self.tok["public"] = ""
            self.state = "doctype_public_identifier_sq"
        elif c == ">":
            self.tok["force_quirks"] = True
            self.state = "data"
            self.emit_doctype()
        else:
            self.tok["force_quirks"] = True
            self._re(c, "bogus_doctype")

    def s_before_doctype_public_identifier(self, c):
        if c is EOF:
            self._doctype_eof()
        elif c in WS:
            pass
        elif c == '"':
            self.tok["public"] = ""
            self.state = "doctype_public_identifier_dq"
        elif c == "'":
            self.tok["public"] = ""
            self.state = "doctype_public_identifier_sq"
        elif c == ">":
            self.tok["force_quirks"] = True
            self.state = "data"
            self.emit_doctype()
        else:
            self.tok["force_quirks"] = True
            self._re(c, "bogus_doctype")

    def _doctype_id(self, c, q, field, after):
        if c == q:
            self.state = after
        elif c == "\x00":
            self.tok[field] += "�"
        elif c == ">":
            self.tok["force_quirks"] = True
            self.state = "data"
            self.emit_doctype()
        elif c is EOF:
            self._doctype_eof()
        else:
            self.tok[field] += c

    def s_doctype_public_identifier_dq(self, c):
        self._doctype_id(c, '"', "public", "after_doctype_public_identifier")

    def s_doctype_public_identifier_sq(self, c):
        self._doctype_id(c, "'", "public", "after_doctype_public_identifier")

    def s_after_doctype_public_identifier(self, c):
        if c is EOF:
            self._doctype_eof()
        elif c in WS:
            self.state = "between_doctype_public_and_system_identifiers"
        elif c == ">":
            self.state = "data"
            self.emit_doctype()
        elif c == '"':
            self.tok["system"] = ""
            self.state = "doctype_system_identifier_dq"
        elif c == "'":
            self.tok["system"] = ""
            self.state = "doctype_system_identifier_sq"
        else:
            self.tok["force_quirks"] = True
            self._re(c, "bogus_doctype")

    def s_between_doctype_public_and_system_identifiers(self, c):
        if c is EOF:
            self._doctype_eof()
        elif c in WS:
            pass
        elif c == ">":
            self.state = "data"
            self.emit_doctype()
        elif c == '"':
            self.tok["system"] = ""
            self.state = "doctype_system_identifier_dq"
        elif c == "'":
            self.tok["system"] = ""
            self.state = "doctype_system_identifier_sq"
        else:
            self.tok["force_quirks"] = True
            self._re(c, "bogus_doctype")

    def s_after_doctype_system_keyword(self, c):
        if c is EOF:
            self._doctype_eof()
        elif c in WS:
            self.state = "before_doctype_system_identifier"
        elif c == '"':
            self.tok["system"] = ""
            self.state = "doctype_system_identifier_dq"
        elif c == "'":
            self.tok["system"] = ""
            self.state = "doctype_system_identifier_sq"
        elif c == ">":
            self.tok["force_quirks"] = True
            self.state = "data"
            self.emit_doctype()
        else:
            self.tok["force_quirks"] = True
            self._re(c, "bogus_doctype")

    def s_before_doctype_system_identifier(self, c):
        if c is EOF:
            self._doctype_eof()
        elif c in WS:
            pass
        elif c == '"':
            self.tok["system"] = ""
            self.state = "doctype_system_identifier_dq"
        elif c == "'":
            self.tok["system"] = ""
            self.state = "doctype_system_identifier_sq"
        elif c == ">":
            self.tok["force_quirks"] = True
            self.state = "data"
            self.emit_doctype()
        else:
            self.tok["force_quirks"] = True
            self._re(c, "bogus_doctype")

    def s_doctype_system_identifier_dq(self, c):
        self._doctype_id(c, '"', "system", "after_doctype_system_identifier")

    def s_doctype_system_identifier_sq(self, c):
        self._doctype_id(c, "'", "system", "after_doctype_system_identifier")

    def s_after_doctype_system_identifier(self, c):
        if c is EOF:
            self._doctype_eof()
        elif c in WS:
            pass
        elif c == ">":
            self.state = "data"
            self.emit_doctype()
        else:
            # parse error; does NOT set force-quirks
            self._re(c, "bogus_doctype")

    def s_bogus_doctype(self, c):
        if c == ">":
            self.state = "data"
            self.emit_doctype()
        elif c is EOF:
            self.emit_doctype()
            self._eof()
        else:
            pass

    # CDATA
    def s_cdata_section(self, c):
        if c == "]":
            self.state = "cdata_section_bracket"
        elif c is EOF:
            self._eof()
        else:
            self.emit(("Character", c))         # NUL is emitted unchanged here

    def s_cdata_section_bracket(self, c):
        if c == "]":
            self.state = "cdata_section_end"
        else:
            self.emit(("Character", "]"))
            self._re(c, "cdata_section")

    def s_cdata_section_end(self, c):
        if c == "]":
            self.emit(("Character", "]"))
        elif c == ">":
            self.state = "data"
        else:
            self.emit_chars("]]")
            self._re(c, "cdata_section")

    # character references
    def s_character_reference(self, c):
        self.temp = "&"
        if c is not EOF and c in ALNUM:
            self._re(c, "named_character_reference")
        elif c == "#":
            self.temp += c
            self.state = "numeric_character_reference"
        else:
            self.flush_code_points()
            self._re(c, self.return_state)

    def s_named_character_reference(self, c):
        # consume the maximum number of characters possible matching an identifier of the table
        if c is not EOF:
            self.pos -= 1
        start = self.pos
        best = None
        i = 0
        while True:
            cand = self.text[start:start + i + 1]
            if len(cand) < i + 1:
                # ran out of input while a longer match is still possible
                if not self.final:
                    raise NeedMore()
                break
            if cand not in _PREFIXES:
                break
            if cand in NAMED:
                best = cand
            i += 1
        if best is not None:
            nxt = self.text[start + len(best):start + len(best) + 1]
            if nxt == "" and not self.final and best[-1] != ";":
                raise NeedMore()
            self.pos = start + len(best)
            if self.in_attr() and best[-1] != ";" and nxt != "" and (nxt == "=" or nxt in ALNUM):
                self.temp += best
                self.flush_code_points()
                self.state = self.return_state
            else:
                self.temp = NAMED[best]
                self.flush_code_points()
                self.state = self.return_state
        else:
            self.flush_code_points()        # just "&"
            self.state = "ambiguous_ampersand"

    def s_ambiguous_ampersand(self, c):
        if c is not EOF and c in ALNUM:
            if self.in_attr():
                self.attr[1] += c
            else:
                self.emit(("Character", c))
        else:
            self._re(c, self.return_state)

    def s_numeric_character_reference(self, c):
        self.code = 0
        if c is not EOF and c in "xX":
            self.temp += c
            self.state = "hexadecimal_character_reference_start"
        else:
            self._re(c, "decimal_character_reference_start")

    def s_hexadecimal_character_reference_start(self, c):
        if c is not EOF and c in HEX:
            self._re(c, "hexadecimal_character_reference")
        else:
            self.flush_code_points()
            self._re(c, self.return_state)

    def s_decimal_character_reference_start(self, c):
        if c is not EOF and c in DIGIT:
            self._re(c, "decimal_character_reference")
        else:
            self.flush_code_points()
            self._re(c, self.return_state)

    def s_hexadecimal_character_reference(self, c):
        if c is not EOF and c in HEX:
            self.code = self.code * 16 + int(c, 16)
        elif c == ";":
            self.state = "numeric_character_reference_end"
            self._numeric_end()
        else:
            self._re(c, "numeric_character_reference_end")
            self._numeric_end()

    def s_decimal_character_reference(self, c):
        if c is not EOF and c in DIGIT:
            self.code = self.code * 10 + int(c)
        elif c == ";":
            self.state = "numeric_character_reference_end"
            self._numeric_end()
        else:
            self._re(c, "numeric_character_reference_end")
            self._numeric_end()

    def _numeric_end(self):
        # the "numeric character reference end state" consumes nothing
        code = self.code
        if code == 0:
            code = 0xFFFD
        elif code > 0x10FFFF:
            code = 0xFFFD
        elif 0xD800 <= code <= 0xDFFF:
            code = 0xFFFD
        elif code in C1:
            code = ord(C1[code])
        self.temp = chr(code)
        self.flush_code_points()
        self.state = self.return_state

    def s_numeric_character_reference_end(self, c):     # never entered with a character
        raise AssertionError("unreachable")

    # -- snapshot of the suspended state (for product-BFS keys) -----------------------------------
    def snapshot(self):
        tok = None
        if self.tok is not None:
            t = self.tok
            if t["kind"] in ("StartTag", "EndTag"):
                tok = (t["kind"], t["name"], tuple((a[0], a[1], a[2]) for a in t["attrs"]), t["self_closing"])
            elif t["kind"] == "Comment":
                tok = ("Comment",)      # data is append-only and was compared at this word's EOF
            else:
                tok = ("DOCTYPE", t["name"], t["public"], t["system"], t["force_quirks"])
        return (self.state, self.return_state, tok, self.temp, self.code, self.last_start_tag,
                self.text[self.pos:] + self.held)


def preprocess(text):
    """Input stream preprocessing: CRLF -> LF, CR -> LF."""
    return text.replace("\r\n", "\n").replace("\r", "\n")


def tokenize(text, state="data", last_start_tag=None, cdata=False, final=True):
    """-> (list of tokens with adjacent characters concatenated, tokenizer)"""
    t = Tokenizer(text, final=final, state=state, last_start_tag=last_start_tag, cdata_allowed=lambda: cdata)
    out = []
    for tok in t.run():
        if tok[0] == "Character" and out and out[-1][0] == "Character":
            out[-1] = ("Character", out[-1][1] + tok[1])
        elif tok[0] != "EOF":
            out.append(tok)
    return out, t
