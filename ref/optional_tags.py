"""The "optional tags" section of the HTML syntax (WHATWG, June 2020) as a predicate over
walker tokens.  Independent of html5lib's filter; written from the standard's prose.

may_omit(prev, tok, nxt, prev_end_omitted) -> bool
  prev / nxt : neighbouring tokens in the *unfiltered* stream (None at the ends)
  prev_end_omitted : True when prev is an EndTag that the filter dropped
"no more content in the parent element" == nxt is an EndTag (the parent's) or the stream ends.
"""
HTML_NS = "http://www.w3.org/1999/xhtml"

OMISSIBLE = frozenset("html head body li dt dd p rt rp optgroup option colgroup thead tbody tfoot tr td th".split())
# caption's end tag is omissible as well, but the property statement lists 18 names without caption

P_FOLLOWERS = frozenset(
    "address article aside blockquote details div dl fieldset figcaption figure footer form "
    "h1 h2 h3 h4 h5 h6 header hgroup hr main menu nav ol p pre section table ul".split())
P_BAD_PARENTS = frozenset("a audio del ins map noscript video".split())


def is_html(tok):
    return tok.get("namespace") in (None, HTML_NS)


def _type(t):
    return None if t is None else t["type"]


def _is_elem(t, names=None):
    """t opens an HTML element (optionally one of names)"""
    if t is None or t["type"] not in ("StartTag", "EmptyTag") or not is_html(t):
        return False
    return names is None or t["name"] in names


def _starts_element(t):
    return t is not None and t["type"] in ("StartTag", "EmptyTag")


def _ws_or_comment(t):
    if t is None:
        return False
    if t["type"] == "Comment":
        return True
    if t["type"] == "SpaceCharacters":
        return True
    if t["type"] == "Characters" and t["data"][:1] in "\t\n\x0c\r ":
        return bool(t["data"])
    return False


def _no_more_content(nxt):
    return nxt is None or nxt["type"] == "EndTag"


def may_omit(prev, tok, nxt, prev_end_omitted=False):
    if tok["type"] not in ("StartTag", "EndTag"):
        return False
    if not is_html(tok):
        return False            # foreign elements must have both tags
    name = tok["name"]
    if name not in OMISSIBLE:
        return False
    if tok["type"] == "StartTag":
        if tok.get("data"):
            return False        # "a start tag must never be omitted if it has any attributes"
        if name == "html":
            return _type(nxt) != "Comment"
        if name == "head":
            # empty, or first thing inside is an element
            return (nxt is not None and nxt["type"] == "EndTag" and nxt["name"] == "head") or _starts_element(nxt)
        if name == "body":
            if nxt is None or (nxt["type"] == "EndTag"):
                return True     # empty
            if _ws_or_comment(nxt):
                return False
            if _is_elem(nxt, ("meta", "link", "script", "style", "template")):
                return False
            return True
        if name == "colgroup":
            if not _is_elem(nxt, ("col",)):
                return False
            if prev is not None and prev["type"] == "EndTag" and is_html(prev) and prev["name"] == "colgroup" \
                    and prev_end_omitted:
                return False
            return True
        if name == "tbody":
            if not (_is_elem(nxt, ("tr",)) and nxt["type"] == "StartTag"):
                return False
            if prev is not None and prev["type"] == "EndTag" and is_html(prev) and \
                    prev["name"] in ("tbody", "thead", "tfoot") and prev_end_omitted:
                return False
            return True
        return False
    # end tags
    if name == "html" or name == "body":
        return _type(nxt) != "Comment"
    if name == "head":
        return not _ws_or_comment(nxt)
    if name == "li":
        return _is_elem(nxt, ("li",)) or _no_more_content(nxt)
    if name == "dt":
        return _is_elem(nxt, ("dt", "dd"))
    if name == "dd":
        return _is_elem(nxt, ("dt", "dd")) or _no_more_content(nxt)
    if name == "p":
        if _is_elem(nxt, P_FOLLOWERS):
            return True
        if nxt is None:
            return True
        if nxt["type"] == "EndTag":
            # parent must be an HTML element that is not a/audio/del/ins/map/noscript/video
            # (nor an autonomous custom element: a name containing "-")
            return is_html(nxt) and nxt["name"] not in P_BAD_PARENTS and "-" not in nxt["name"]
        return False
    if name in ("rt", "rp"):
        return _is_elem(nxt, ("rt", "rp")) or _no_more_content(nxt)
    if name == "optgroup":
        return _is_elem(nxt, ("optgroup",)) or _no_more_content(nxt)
    if name == "option":
        return _is_elem(nxt, ("option", "optgroup")) or _no_more_content(nxt)
    if name == "colgroup":
        return not _ws_or_comment(nxt)
    if name == "thead":
        return _is_elem(nxt, ("tbody", "tfoot"))
    if name == "tbody":
        return _is_elem(nxt, ("tbody", "tfoot")) or _no_more_content(nxt)
    if name == "tfoot":
        return _no_more_content(nxt)
    if name == "tr":
        return _is_elem(nxt, ("tr",)) or _no_more_content(nxt)
    if name in ("td", "th"):
        return _is_elem(nxt, ("td", "th")) or _no_more_content(nxt)
    return False
