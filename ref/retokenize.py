"""Read serializer output "in place", the way an HTML parser's tokenizer would see it.

ref/tokenizer.py does the tokenizing; this module supplies the content-model switches a tree builder
would apply (RCDATA / RAWTEXT / script data / PLAINTEXT for HTML-namespace elements only, CDATA sections
only inside foreign content), driven by the KNOWN namespace of each element in the stream that was
serialized (the k-th start tag read back is matched with the k-th StartTag/EmptyTag of the stream).
"""
from ref import tokenizer as rt

HTML_NS = "http://www.w3.org/1999/xhtml"
XLINK = "http://www.w3.org/1999/xlink"
XML = "http://www.w3.org/XML/1998/namespace"
XMLNS = "http://www.w3.org/2000/xmlns/"

RCDATA = frozenset(["title", "textarea"])
RAWTEXT = frozenset(["style", "xmp", "iframe", "noembed", "noframes"])
VOID = frozenset("area base br col embed hr img input link meta param source track wbr".split())


def qualified(ns, local):
    """attribute name as the standard's serialization algorithm writes it"""
    if ns is None:
        return local
    if ns == XLINK:
        return "xlink:" + local
    if ns == XML:
        return "xml:" + local
    if ns == XMLNS:
        return "xmlns" if local == "xmlns" else "xmlns:" + local
    return local


def ascii_lower(s):
    return "".join(chr(ord(c) + 32) if "A" <= c <= "Z" else c for c in s)


def expected_tokens(stream):
    """walker token stream -> list of lexical tokens the output must read back as"""
    out = []
    for t in stream:
        ty = t["type"]
        if ty in ("StartTag", "EmptyTag"):
            # names are compared the way the tokenizer reads them: ASCII-lowercased
            attrs = sorted((ascii_lower(qualified(k[0], k[1])), v) for k, v in t["data"].items())
            out.append(("StartTag", ascii_lower(t["name"]), tuple(attrs)))
        elif ty == "EndTag":
            out.append(("EndTag", ascii_lower(t["name"])))
        elif ty in ("Characters", "SpaceCharacters"):
            if t["data"] == "":
                continue
            if out and out[-1][0] == "Character":
                out[-1] = ("Character", out[-1][1] + t["data"])
            else:
                out.append(("Character", t["data"]))
        elif ty == "Comment":
            out.append(("Comment", t["data"]))
        elif ty == "Doctype":
            out.append(("DOCTYPE", t["name"] or None, t["publicId"] or None, t["systemId"] or None))
    return out


def read_back(text, stream, scripting):
    """tokenize `text` with content-model switches taken from `stream` -> list of lexical tokens"""
    starts = [t for t in stream if t["type"] in ("StartTag", "EmptyTag")]
    # the foreign-ness of the "current node" at each point: simulated from the stream's own nesting
    open_ns = []          # namespaces of open elements (from what we read back, matched to the stream)
    k = [0]

    def cdata_allowed():
        return bool(open_ns) and open_ns[-1] not in (None, HTML_NS)
    tok = rt.Tokenizer(text, final=True, cdata_allowed=cdata_allowed)
    out = []
    drop_lf = [False]       # tree construction ignores one LF right after <pre>, <textarea>, <listing>
    for t in tok.run():
        if t[0] == "Character":
            if drop_lf[0]:
                drop_lf[0] = False
                if t[1] == "\n":
                    continue
            if out and out[-1][0] == "Character":
                out[-1] = ("Character", out[-1][1] + t[1])
            else:
                out.append(t)
        elif t[0] == "StartTag":
            drop_lf[0] = False
            out.append(("StartTag", t[1], tuple(sorted(t[2]))))
            ns = None
            self_closing_void = False
            if k[0] < len(starts):
                s = starts[k[0]]
                ns = s.get("namespace")
                self_closing_void = s["type"] == "EmptyTag"
            k[0] += 1
            html = ns in (None, HTML_NS)
            name = t[1]
            if html:
                if name in RCDATA:
                    tok.state = "rcdata"
                elif name in RAWTEXT or (name == "noscript" and scripting):
                    tok.state = "rawtext"
                elif name == "script":
                    tok.state = "script_data"
                elif name == "plaintext":
                    tok.state = "plaintext"
                if name in ("pre", "textarea", "listing"):
                    drop_lf[0] = True
            if not (html and name in VOID) and not self_closing_void and not (t[3] and not html):
                open_ns.append(ns)
        elif t[0] == "EndTag":
            drop_lf[0] = False
            out.append(("EndTag", t[1]))
            if open_ns:
                open_ns.pop()
        elif t[0] == "Comment":
            drop_lf[0] = False
            out.append(("Comment", t[1]))
        elif t[0] == "DOCTYPE":
            out.append(("DOCTYPE", t[1] or None, t[2] or None, t[3] or None))
    return out
