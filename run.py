#!/venv/bin/python
"""Entry point:  run.py check <ID> [--tier quick|thorough]   |   run.py replay <file>   |   run.py selftest"""
import importlib
import json
import os
import sys

HERE = os.path.dirname(os.path.abspath(__file__))
sys.path.insert(0, HERE)
os.environ.setdefault("PYTHONHASHSEED", "0")

CHECKS = {
    "C01": "checks.c01_tree", "C02": "checks.c02_tokenizer", "C03": "checks.c03_total",
    "C04": "checks.c04_builders", "C05": "checks.c05_delivery", "C06": "checks.c06_encoding",
    "C07": "checks.c07_roundtrip", "C08": "checks.c08_serializer", "C09": "checks.c09_sanitizer",
    "C10": "checks.c10_resanitize", "C11": "checks.c11_walkers", "C12": "checks.c12_reuse",
    "C13": "checks.c13_optionaltags", "C14": "checks.c14_charrefs", "C15": "checks.c15_metacharset",
    "C16": "checks.c16_strict", "C17": "checks.c17_whitespace", "C18": "checks.c18_alphabetical",
    "C19": "checks.c19_sax", "C20": "checks.c20_xmlname",
}


def main(argv):
    if len(argv) < 2:
        print(__doc__)
        return 2
    cmd = argv[1]
    if cmd == "check":
        pid = argv[2]
        tier = os.environ.get("VERIF_TIER", "quick")
        if "--tier" in argv:
            tier = argv[argv.index("--tier") + 1]
        seed = int(os.environ.get("VERIF_SEED", "0") or 0)
        if os.environ.get("PYTHONHASHSEED") != "0":
            os.environ["PYTHONHASHSEED"] = "0"
            os.execv(sys.executable, [sys.executable] + argv)
        from mc import engine
        engine.use_repo()
        mod = importlib.import_module(CHECKS[pid])
        run = engine.Run(pid, tier, seed)
        return mod.run(run)
    if cmd == "replay":
        from mc import engine
        engine.use_repo()
        with open(argv[2]) as f:
            body = json.load(f)
        mod = importlib.import_module(CHECKS[body["property"]])
        if body["harness"] == "engine.step":
            v = engine.replay_step(engine.unjson(body["config"]), engine.unjson(body["case"]))
        else:
            v = mod.replay(body["harness"], engine.unjson(body["config"]), engine.unjson(body["case"]))
        if v is None:
            print("NOT-REPRODUCED (property holds on this case)")
            return 0
        print("REPRODUCED")
        print(" expected:", json.dumps(engine.jsonable(v.expected))[:2000])
        print(" actual  :", json.dumps(engine.jsonable(v.actual))[:2000])
        print(" what    :", v.what)
        return 1
    if cmd == "selftest":
        import subprocess
        return subprocess.call([sys.executable, "-m", "pytest", "-q", "-p", "no:cacheprovider",
                                os.path.join(HERE, "tests")])
    print(__doc__)
    return 2


if __name__ == "__main__":
    sys.exit(main(sys.argv))
