#!/venv/bin/python
"""Regenerates /verif/MANIFEST.json from the table below (only checks whose module exists are claimed)."""
import json
import os
import sys

HERE = os.path.dirname(os.path.dirname(os.path.abspath(__file__)))
sys.path.insert(0, HERE)
from run import CHECKS  # noqa

BASE = "cd /repo && /venv/bin/python -m pytest -ra -q -p no:cacheprovider --timeout=900 --continue-on-collection-errors"

# flat complete-domain products added to the explorations during the seeded-change campaign (DESIGN section 11)
ADD = {
 "C01": "; plus flat exhaustive products, each compared with the same reference: every quirks-mode rule (4 doctype names x 194 public identifiers x 7 system identifiers), 158 element names x 34 structural templates x 6 contexts, every entry of the SVG tag / attribute fix-up tables and of the foreign-attribute table and every foreign scoping element in 10 templates; three hand-derived <template> witnesses (known finding)",
 "C02": "; words explored from attribute-value seeds are also judged with the suffix that completes the tag",
 "C03": "; plus 158 element names x 34 templates x 6 contexts, every element name as fragment container x 14 texts, and all byte words <=4 over 16 encoding-declaration fragments x 4 argument sets",
 "C04": "; plus every ordered pair of 15 interacting attribute names on 5 hosts and the 158-name / foreign-table sweeps (a disagreement is attributed to the recorded minidom colon-name finding only if that eviction rule reproduces the dom result exactly)",
 "C06": " (now 23 body variants incl. several declarations met by tree construction and prescan guesses taken from RCDATA/script text; the prescan alphabet has a complete-declaration macro letter: 15.2 M prescan inputs)",
 "C08": "; plus every DOCTYPE public x system identifier <=2 (3) over {a,\",',>,space}, and 158 element names as HTML element and SVG twin with markup-like text and a quoted attribute",
 "C09": "; URL-valued attributes come from the oracle's own table, style keywords of shorthand declarations are checked against allowed keywords / colours / lengths",
 "C10": "; plus an attribute theme (doubly escaped references, markup inside allowed attribute values) explored one level deeper; the third option set uses quote_attr_values=spec",
 "C11": "; plus every code point below U+3100 (thorough: the whole BMP) in two text shapes: SpaceCharacters tokens may only hold the five HTML whitespace characters",
 "C12": "; (d) all sequences <=2 (3) of 13 module-level factory / convenience calls (getTreeBuilder / getTreeWalker with every keyword form, parse, parseFragment, serialize), each history in its own fresh interpreter",
 "C13": "; alphabet now 169 tokens (an SVG twin of every name a rule looks for) plus every (omissible tag, neighbour) pair with the neighbour ranging over 158 element names; parse equivalence also over generator theme G6 (p inside ins/del/map/a/noscript/video)",
 "C15": " (12 head letters; full head depth for 10 representative encodings, depth D-2 for the other 25 labels)",
 "C16": "; plus 614 conforming documents with every void element with and without trailing solidus",
 "C17": "; the state key holds every bool/int local of the filter's generator; plus every element name and every BMP code point in 4 text shapes",
 "C19": "; qname prefixes must be bound to the attribute's namespace; plus every entry of the foreign tables (663 words)",
}

# id -> (category, technique, text, note, design_ref)
T = {
 "C01": ("model_checking",
         "explicit-state product BFS: real HTMLParser (tokenizer + tree construction, minidom result read by direct traversal) x ref/treebuilder.py, a spec-literal WHATWG tree builder driven by ref/tokenizer.py; state key = suspended implementation state (insertion mode, closed-subtree skeleton of live nodes, stacks, pointers, flags, pending table text, tokenizer snapshot) + the same for the reference; every transition parses word+EOF with both and compares canonical trees; one-step bisimulation check of the abstraction",
         "Nine themed alphabets of whole-token letters (formatting/adoption agency, tables, select, prologue/head/frameset, foreign content, blocks/lists/implied end tags, text modes, newer elements, union) are explored breadth-first in document mode with scripting off and on and in fragment mode for the HTML context elements, modulo state equivalence, so deep insertion-mode x token x stack-shape combinations are reached with short words.",
         "ref/treebuilder.py and ref/tokenizer.py (about 2000 lines written from the June-2020 standard) are trusted; <template> is not modelled (witness only); HTML-breakout tags inside foreign content are not explored in fragment mode (fragment-case clause of the 2020 text unsettled); letters outside the alphabets are not covered",
         "6/C01"),
 "C14": ("exploration",
         "exhaustive enumeration of complete finite domains on the real tokenizer and parser: all 2231 named references (with/without ';') x 13 followers x 6 contexts x 2 routes; every numeric value 0..0x110000 x 6 spellings; reverse direction over code points x output encodings; oracle = 40-line reference decoder over the stdlib table",
         "The named-reference table and the numeric range are finite, so every entry is executed: each name in each context (data, RCDATA, three attribute quotings) followed by each class of next character, through HTMLTokenizer and through parseFragment; every numeric value in decimal/x/X with and without ';'. The reverse clause serializes every code point as text and attribute value with an output encoding and parses it back.",
         "the reference decoder and html.entities.html5 / the cp1252 codec (stdlib) are trusted; quick tier runs the non-data contexts of numeric references and the astral reverse direction on a stated partition (thorough: complete)",
         "6/C14"),
 "C02": ("model_checking",
         "explicit-state product BFS: real HTMLTokenizer (+ real input stream) x reference tokenizer written from the WHATWG text; state key = suspended implementation state (obtained by a source that raises instead of signalling EOF) + suspended reference state; every transition runs the real tokenizer to EOF and compares the full token list; one-step bisimulation check of the key",
         "Six character/keyword alphabets (tags+attributes, comments, DOCTYPE, RCDATA/RAWTEXT/script/PLAINTEXT with 8 start-state x last-start-tag configurations, character references in data/RCDATA/three attribute contexts, CDATA allowed/not) are explored breadth-first from the empty prefix and from seed prefixes up to the stated depth, modulo state equivalence. Every reachable (state x next letter) combination inside the bound is executed on the implementation and compared with the reference.",
         "ref/tokenizer.py (about 900 lines, my transcription of the June-2020 WHATWG tokenizer; named references from html.entities.html5, C1 table from the cp1252 codec) is trusted; characters outside the alphabets are assumed to behave like the letter of the same class",
         "6/C02"),
 "C03": ("model_checking",
         "explicit-state BFS over markup-token words (state key = suspended parser state) with invariants checked on every execution in 5 builder configurations x str/bytes; plus flat exhaustive byte soup (all byte strings <=4 over 19 bytes x 3 encoding hints) and an exhaustive pump family (every letter and ordered pair of open tags repeated past the recursion limit x 14 closers x 5 prefixes)",
         "Every explored input is parsed by the real parser with etree, etree fullTree and dom builders, namespacing on and off, scripting off and on, in document mode and for all 28 fragment containers; the oracle is: no exception of any type, a 20 s watchdog, and the document skeleton read by direct traversal. Nesting depth is attacked by construction (n = 1100 quick, 5000 thorough) rather than by luck.",
         "termination is bounded by the watchdog; inputs outside the alphabets / above the depths are not covered; a noframes element after a frameset is accepted as a third child of html (the standard puts it there)",
         "6/C03"),
 "C04": ("model_checking",
         "explicit-state BFS over markup-token words, differential oracle across six builder configurations (etree root form, etree fullTree, dom x namespaceHTMLElements on/off); state key = suspended dom-parser state (insertion mode, closed-subtree skeleton of live nodes, stacks, pointers, flags, pending table text, tokenizer snapshot) + consistency of the etree builder's shadow child lists; one-step bisimulation check of the key",
         "For every word of seven themed alphabets (formatting/adoption, tables, select, prologue/head/frameset, foreign content, blocks/lists, text modes) and their union, up to the stated depth modulo state equivalence, in document mode and in fragment mode for 10 containers, the real parser is run with all six builder configurations and the canonical trees (read by direct traversal) must be equal; the etree root form must equal the html subtree of the full tree.",
         "no reference model: a defect shared by all builders is invisible here (C01 covers that); attribute order is compared as a mapping; letters containing '{' or ':' in names are not in the alphabets",
         "6/C04"),
 "C05": ("model_checking",
         "deviation-bounded exhaustive exploration of the environment: the harness owns every read() answer; all 2^(n-1) segmentations of every text <=4 (thorough 5) characters over a 16-letter boundary-sensitive alphabet, all placements of <=2 cuts in multi-character-token words, whole-input sources x internal chunk sizes {1,2,3,5}, and for 38 encodings every byte segmentation of short inputs through bytes / BytesIO / non-seekable short-read sources (encoding declared certain by transport_encoding or by a BOM); differential oracle against the one-str parse",
         "A deviation is a cut between two reads; with read sizes capped by the requested size, the set of all segmentations also realises every internal chunk size. Every schedule is executed on the real input stream + tokenizer + parser and must give the same canonical tree and the same (code, line, col) error list as the undisturbed run.",
         "Python's codecs are trusted for decoding; inputs whose bytes spell a BOM that is not meant as one are excluded; placement of stream-level invalid-codepoint reports is a listed known finding",
         "6/C05"),
 "C06": ("exploration",
         "exhaustive enumeration of a complete finite configuration space (5^5 assignments of the five *_encoding arguments over {absent, two valid labels, invalid, UTF-16} x 5 BOM variants x 13 body variants = 203125 real parses) against a reference precedence function, plus bounded-exhaustive enumeration of the prescan's input language (all byte words <=4 over 25 macro-letters x 4 terminations, from 8 seed prefixes) against ref/prescan.py written from the standard",
         "Every configuration is parsed by the real HTMLParser; documentEncoding must equal the documented precedence (BOM > override > transport > prescan meta > parent unless UTF-16 > likely > default > windows-1252; UTF-16 in meta means UTF-8; late meta while tentative restarts) and the tree must equal html5lib's parse of the bytes decoded by Python's codec for the reported encoding. The prescan is driven at its narrowest seam (detectEncodingMeta) on every short byte word.",
         "webencodings' label table and Python's codecs are trusted; six modelled prescan deviations and the dropped truncated final byte sequence are listed known findings; chardet is absent",
         "6/C06"),
 "C07": ("exploration",
         "bounded exhaustive enumeration of conforming document trees from a content-model grammar (every forest within a node budget, five shape themes) x 6 shape-relevant option sets x both walkers, plus character documents under the full cross product of 2592 serializer option combinations; oracle: canonical(parse(render(walk(parse(markup))))) == canonical(parse(markup)), with a generator self-check (intended tree == parsed tree)",
         "Every generated document is written fully tagged by an independent writer, parsed by html5lib, required to equal the intended tree, then serialized by the real serializer under each option set with each walker and parsed again; the two canonical trees (direct traversal) must be equal. Exhaustive within the stated node budgets, which include every optional-tag situation of lists, tables, select, ruby, head/body starts, pre/textarea.",
         "the grammar is deliberately conservative (only productions I am sure are conforming); attribute order is not compared; the boolean-minimisation value change is a listed known finding",
         "6/C07"),
 "C08": ("model_checking",
         "explicit-state BFS over markup/attribute/text themes (key = parser state + complete final tree); every distinct tree is walked by both walkers and serialized with 8 option sets; plus flat exhaustive enumeration of hand-built streams (all attribute values and texts <=2-3 over 12-13 letter alphabets in 11 element contexts) under the FULL cross product of 1296 serializer option combinations; oracle = ref/retokenize.py (reference tokenizer + content-model switches from the known namespaces) reading the output in place, or a reported serialization error",
         "Each output is re-read lexically by an independent tokenizer written from the standard and must yield exactly the tags, attribute (qualified name, value) sets, text, comments and doctype of the stream it came from; otherwise serializer.errors must be non-empty and strict mode must raise.",
         "ref/tokenizer.py is trusted; names are compared ASCII-case-insensitively as the tokenizer reads them; trees are built (and re-read) with scripting off; a UnicodeEncodeError from the serializer counts as a reported error (pinned by the suite); seven root causes are listed known findings",
         "6/C08"),
 "C09": ("model_checking",
         "explicit-state BFS over markup themes incl. an XSS-flavoured one (key = parser state + complete final tree), each distinct tree walked and pushed through the real sanitizer under 29 allow-list configurations; plus flat exhaustive enumeration of all URL values <=3 over 28 macro-letters on each of the 13 URI-valued attributes and all style values <=4 over 23 CSS macro-letters; invariant oracle on the output stream with an independent browser-style scheme extractor (ref/urlscheme.py) and CSS-escape decoder",
         "The sanitizer is a per-token function, so hand-built one-element streams carrying every short attribute value cover its decision domain for URLs and CSS; parsed streams cover element/attribute filtering, comments and namespaced attributes. Each output is checked against the allow-lists actually configured (default, each protocol removed, data types emptied, restricted elements / attributes, empty).",
         "ref/urlscheme.py models the WHATWG URL scheme extraction, it is not a browser; the ping attribute is treated as a single URL; values outside the macro alphabets are not covered",
         "6/C09"),
 "C10": ("model_checking",
         "explicit-state BFS over a 45-letter mXSS-shaped alphabet (raw-text elements, foreign content, integration points, tables, select, noscript, comments, CDATA, escaped payloads; key = parser state + complete final tree); each explored input runs the real pipeline parse -> walk -> sanitize (default and a permissive allow-list) -> serialize (3 option sets) -> parse again (document / fragment x scripting off / on) = 48 re-parses; invariant oracle on the re-parsed tree read by direct traversal",
         "Every input inside the bound is pushed through the whole real pipeline and the re-parsed tree must still satisfy the allow-list in force (elements with namespace, attributes, URI schemes by ref/urlscheme.py, no comments) and contain only element names the sanitizer let through or the parser implies. Violations are attributed to a root cause computed from the first tree (HTML child of a non-integration-point foreign element; escaped integration point with surviving children); anything unexplained is reported.",
         "depth 3 (quick) / 4 (thorough) over the stated alphabet; two root causes are listed known findings; ref/urlscheme.py is a model of a browser's URL parser",
         "6/C10"),
 "C11": ("model_checking",
         "explicit-state BFS over markup-token words, key = (suspended parser state, digest of the complete final tree); every explored word is built with etree (full tree / root element / fragment) and dom (document / documentElement / fragment), namespacing on and off, and walked by the real walkers from each start node; oracle = lint filter + own well-formedness checker + tree rebuilt from the stream == direct traversal + etree stream == dom stream",
         "Walkers are pure traversals, so coverage is counted in distinct complete trees: all trees reachable by words of eight themed alphabets up to the stated depth (document mode and one fragment container per theme) are walked 12 ways each. The rebuilt-tree oracle is independent of html5lib (direct traversal of minidom / ElementTree objects).",
         "names containing '{' or ':' appear only in witness words; attribute order is compared as a mapping; the 14 void elements of the standard are required to be EmptyTag, html5lib's two legacy extras (command, event-source) are accepted either way",
         "6/C11"),
 "C12": ("model_checking",
         "three exhaustive explorations on the real objects: (a) explicit-state BFS over call histories on ONE shared HTMLParser per builder (32 operations + strict-mode aborts; state key = structural digest of the parser object graph, exact-equality pruning) and all short histories on a shared HTMLSerializer; (b) fault enumeration: every abortable document aborted at EVERY read position by a raising source, followed by every operation (optionally with a strict-mode abort in between); (c) a hand-written settrace/semaphore thread scheduler running two real threads with independent parsers through all schedules with <=1 preemption at every html5lib function call and <=2 preemptions at calls touching module-level state; oracle = results of the same calls on brand-new objects in a fresh interpreter (two hash seeds)",
         "Reuse after an aborted call is just another transition, so residue left in long-lived phase objects, caches or module-level state shows up as a differing (tree, errors, encoding) triple against the cold baseline; each failing thread schedule is replayed and must fail identically before it is believed.",
         "preemption only at function-call granularity under the GIL (no bytecode-level interleaving, no C-level builtins); at most 2 threads; no Python race detector exists in the image, so unsynchronised accesses that never change an observable result are not reported",
         "6/C12"),
 "C13": ("exploration",
         "bounded exhaustive enumeration of token streams: the filter's complete (previous, token, next) decision domain (all streams <=3 over 134 walker tokens) + all streams of length 4-5 over a reduced alphabet, real filter, oracle = independent predicate written from the standard's optional-tags section; parse-equivalence clause over generated conforming trees in C07's space",
         "The filter decides from a 3-token window, so enumerating every stream of length <=3 over an alphabet that contains every omissible element (with/without attributes), look-alike names, foreign elements, void elements, text, whitespace, comments and doctype visits every decision it can make; longer streams over a reduced alphabet would expose state added by a change. Each removed token is checked against ref/optional_tags.py.",
         "ref/optional_tags.py (my transcription of the June-2020 WHATWG 'optional tags' section) is trusted; element names outside the alphabet behave like 'unknownx'; Characters tokens that begin with whitespace are outside the walker contract and not in the alphabet",
         "6/C13"),
 "C15": ("exploration",
         "bounded exhaustive enumeration: all head words <=3 over 10 head letters (both declaration forms, non-declaring metas, non-ASCII title, a script that looks like a meta, comment, 1100-byte filler) x 3 bodies x 35 output encodings x optional-tag omission on/off, each run through the real parse -> walk -> inject_meta_charset -> serialize(encoding) -> parse(bytes, no hints) pipeline; oracle = documentEncoding equals the requested encoding and the tree equals an independently computed expected tree (declarations rewritten / one injected first in head)",
         "The expected tree is computed by a small independent model of what the filter must do, not by the filter; unencodable characters must come back through character references because the trees are compared after decoding.",
         "covers the encodings whose WHATWG name is also a Python codec name (35 of 40); UTF-16LE/BE output is a listed known finding; Python codecs trusted",
         "6/C15"),
 "C16": ("model_checking",
         "explicit-state BFS over the six tokenizer character alphabets (document and fragment parses; every prefix = every truncation at EOF) and the eight tree themes; state key = suspended parser state; oracle on every execution: strict raises html5parser.ParseError iff the non-strict run records an error, the message is the first recorded error's, every record has a code in constants.E that formats with its variables and a position inside the input; fixed list of conforming documents records none",
         "Both parses (strict and non-strict) are executed on the real parser for every explored word, so every reachable (tokenizer state x EOF) and (insertion mode x token) error site inside the bounds is hit, and the error-code coverage (111 of 132 codes in quick) is reported.",
         "conforming-document clause uses 12 hand-written documents here and the generated conforming trees of C07; codes not reached inside the bounds are listed in the evidence by omission",
         "6/C16"),
 "C17": ("model_checking",
         "explicit-state BFS over walker-shaped token streams; product state = (reference element stack, trailing-whitespace flag, the real filter's `preserve` counter read from its suspended generator frame); every transition executes the real filter; oracle = reference transducer + pass-through + idempotence; flat exhaustive pass over arbitrary unbalanced streams for the pass-through clauses",
         "All balanced-prefix token streams up to depth 5 (thorough 7) over 22 letters (7 element kinds incl. every preserve class and nesting, 12 text tokens covering all five whitespace characters and runs split across tokens, void tag, comment, attribute with whitespace) are explored up to state equivalence, with a one-step bisimulation check of the state key; each is compared with an independent reference transducer and re-filtered for idempotence.",
         "the reference transducer encodes my reading of the statement (a maximal whitespace run is taken over adjacent text tokens); element names outside the alphabet are assumed to behave like div",
         "6/C17"),
 "C18": ("exploration",
         "bounded exhaustive enumeration of inputs: all attribute sets <=K x all insertion orders x all short token contexts, real filter, set/sort/permutation oracle",
         "Every attribute set of up to 4 (thorough 6) keys drawn from a pool mixing None/string namespaces and equal local names is fed to the real filter in every insertion order, inside every context of neighbouring tokens; the oracle checks multiset equality, sortedness by (namespace or '', local) and permutation invariance. The filter has no state, so this is its whole decision domain up to the bound.",
         "attribute values beyond the two value assignments and names outside the pool are not distinguished; Python's sort is trusted",
         "6/C18"),
 "C19": ("model_checking",
         "same explicit-state exploration as C11; each of the 12 walker streams per word is pushed through the real to_sax() into a recording ContentHandler; oracle = SAX event grammar + tree rebuilt from the events == direct traversal minus comments/doctype",
         "Every distinct tree reachable inside the bounds is converted to SAX events from every start node with both walkers; the event sequence is checked against the SAX nesting grammar and replayed into a tree that must equal the source tree (elements, namespaces, attributes as ((ns, local), value), text in order).",
         "qnames of un-prefixed attributes are not compared (AttributesNSImpl has none); comments and doctype are omitted by design",
         "6/C19"),
 "C20": ("exploration",
         "exhaustive enumeration of complete finite domains (every BMP code point x 4 positions, all names <=3 over a 46-character class-boundary set, all comments <=8 over {-,a,space}, pubids, x all 64 flag combinations) against the real InfosetFilter; oracle = expat + round trip + injectivity + reuse-equals-fresh",
         "The coercion works character by character (two character-class regexes), so visiting every BMP code point in first and non-first position is its complete domain; multi-character interaction (escape patterns, replace order, cache reuse) is covered by all short names over a set that sits on every class boundary. expat, an independent XML parser, decides legality.",
         "expat 2.5 (XML 1.0 4th-edition names) is the XML parser; astral characters are outside the property's BMP quantifier; names longer than 3-4 characters are assumed to behave character-wise",
         "6/C20"),
}


def main():
    checks = []
    na = []
    for pid in sorted(CHECKS):
        modpath = os.path.join(HERE, CHECKS[pid].replace(".", "/") + ".py")
        if pid in T and os.path.exists(modpath):
            cat, tech, text, note, ref = T[pid]
            checks.append({
                "property_id": pid,
                "quick_cmd": "/venv/bin/python run.py check %s --tier quick" % pid,
                "thorough_cmd": "/venv/bin/python run.py check %s --tier thorough" % pid,
                "evidence_file": "/verif/evidence/%s.json" % pid,
                "replay_cmd_template": "/venv/bin/python run.py replay {path}",
                "engine": "mc",
                "level_claimed": {"category": cat, "text": text, "design_ref": "DESIGN.md " + ref},
                "level_note": note,
                "technique": tech + ADD.get(pid, ""),
            })
        else:
            na.append({"property_id": pid, "reason": "check not built yet in this session (planned: DESIGN.md section 6/%s); no claim is made" % pid})
    m = {
        "version": 1,
        "setup_cmd": "true",
        "hooks": {"guard": "HTML5LIB_VERIF", "enable": "no guarded code exists in /repo; checks import html5lib from $VERIF_REPO (default /repo) and set HTML5LIB_VERIF=1 for interface completeness",
                  "baseline_off_cmd": BASE, "source_commits": [], "add_only": True},
        "engines": [{"name": "mc", "path": "/verif/mc", "serves_properties": [c["property_id"] for c in checks],
                     "kind_free_text": "hand-written explicit-state / bounded-exhaustive explorer driving the real html5lib code (product BFS against reference models, flat enumeration, deviation-bounded read schedules, thread scheduler)"}],
        "checks": checks,
        "not_applicable": na,
        "notes": "All checks run the real code from /repo's working tree (pure Python, nothing to build). Known unrepaired defects are listed in /verif/known_findings.json.",
    }
    with open(os.path.join(HERE, "MANIFEST.json"), "w") as f:
        json.dump(m, f, indent=1)
        f.write("\n")
    print("claimed:", [c["property_id"] for c in checks])


if __name__ == "__main__":
    main()
