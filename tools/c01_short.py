#!/venv/bin/python
"""list the shortest failing words of a C01 theme/config (triage helper)"""
import sys, os, itertools
sys.path.insert(0, "/verif")
from mc import engine; engine.use_repo()
from checks import c01_tree as c, treewords as tw
theme = sys.argv[1]; depth = int(sys.argv[2]); container = sys.argv[3] if len(sys.argv) > 3 and sys.argv[3] != "-" else None
scripting = len(sys.argv) > 4
L = tw.THEMES[theme]
def work(w):
    t = tw.text_of(theme, w)
    j = c.judge(t, container, scripting)
    return (t, j[1]) if j else None
seen = {}
for d in range(1, depth + 1):
    words = list(itertools.product(range(len(L)), repeat=d))
    for r in engine.pmap(work, words):
        if r and not any(r[0].startswith(p) for p in seen):
            seen[r[0]] = r[1]
    if len(seen) > 60: break
for t, cls in list(seen.items())[:80]:
    print(repr(t), cls)
print(len(seen), "minimal failing words")
