#!/bin/bash
# run every claimed check's quick (or $1) tier on the current trees; print one line per check
cd "$(dirname "$0")/.."
TIER=${1:-quick}
IDS=${@:2}
for id in ${IDS:-$(/venv/bin/python -c "import json; print(' '.join(c['property_id'] for c in json.load(open('MANIFEST.json'))['checks']))")}; do
  s=$(date +%s)
  out=$(/venv/bin/python run.py check $id --tier $TIER 2>&1)
  rc=$?
  e=$(date +%s)
  echo "$id rc=$rc $((e-s))s $(echo "$out" | grep -c '^VIOLATION') violations $(echo "$out" | grep -c '^KNOWN-FINDING') known"
  if [ $rc -ne 0 ]; then echo "$out" | grep -A2 '^VIOLATION' | head -12; echo "$out" | tail -3; fi
done
