#!/venv/bin/python
"""seed_recheck.py [name-prefix ...] [--tier quick]

Regression test of the checks themselves: applies every stored seeded change (/verif/seeded/<name>/patch.diff)
to a scratch copy of the CURRENT /repo and runs the property's check against it (VERIF_REPO).  A seed counts as
caught when the check exits 1 with a VIOLATION line.  Evidence files are restored afterwards; nothing in /repo
is touched.  Writes /verif/seeded/RECHECK.json."""
import json
import os
import shutil
import subprocess
import sys
import time

VERIF = os.path.dirname(os.path.dirname(os.path.abspath(__file__)))


def sh(cmd, cwd=None, env=None, timeout=7200):
    r = subprocess.run(cmd, shell=True, cwd=cwd, env=env, capture_output=True, text=True, timeout=timeout)
    return r.returncode, r.stdout + r.stderr


def main():
    args = [a for a in sys.argv[1:] if not a.startswith("--")]
    tier = "quick"
    if "--tier" in sys.argv:
        tier = sys.argv[sys.argv.index("--tier") + 1]
        args = [a for a in args if a != tier]
    names = sorted(n for n in os.listdir(os.path.join(VERIF, "seeded")) if os.path.isdir(os.path.join(VERIF, "seeded", n)))
    if args:
        names = [n for n in names if any(n.startswith(a) for a in args)]
    repo = os.environ.get("VERIF_REPO", "/repo")
    out = {}
    bad = 0
    for n in names:
        d = os.path.join(VERIF, "seeded", n)
        meta = json.load(open(os.path.join(d, "meta.json")))
        scratch = "/dev/shm/recheck-%s-%d" % (n, os.getpid())
        shutil.rmtree(scratch, ignore_errors=True)
        os.makedirs(scratch)
        sh("cp -r %s/html5lib %s/" % (repo, scratch))
        rc, o = sh("patch -p1 -s < %s" % os.path.join(d, "patch.diff"), cwd=scratch)
        if rc != 0:
            out[n] = {"status": "patch-stale"}
            print(n, "PATCH DOES NOT APPLY")
            bad += 1
            shutil.rmtree(scratch, ignore_errors=True)
            continue
        env = dict(os.environ)
        env["VERIF_REPO"] = scratch
        res = {}
        for c in (meta.get("caught_by") or [meta["property"]]):
            t0 = time.time()
            rc, o = sh("/venv/bin/python run.py check %s --tier %s" % (c, tier), cwd=VERIF, env=env)
            sh("git checkout -- evidence/%s.json" % c, cwd=VERIF)
            viol = [l for l in o.splitlines() if l.startswith("VIOLATION")]
            res[c] = {"exit": rc, "violations": len(viol), "seconds": round(time.time() - t0)}
        shutil.rmtree(scratch, ignore_errors=True)
        caught = [c for c, r in res.items() if r["exit"] == 1 and r["violations"]]
        out[n] = {"status": "caught" if caught else "MISSED", "checks": res}
        print(n, out[n]["status"], json.dumps(res))
        sys.stdout.flush()
        if not caught:
            bad += 1
    path = os.path.join(VERIF, "seeded", "RECHECK.json")
    merged = {}
    if os.path.exists(path):        # (partial runs accumulate)
        try:
            merged = json.load(open(path)).get("results", {})
        except ValueError:
            merged = {}
    head = sh("git -C /repo rev-parse --short HEAD")[1].strip()
    for n, r in out.items():
        r["repo_head"] = head
        merged[n] = r
    with open(path, "w") as f:
        json.dump({"tier": tier, "results": merged}, f, indent=1, sort_keys=True)
    print("%d seeds, %d not caught" % (len(names), bad))
    return 1 if bad else 0


if __name__ == "__main__":
    sys.exit(main())
