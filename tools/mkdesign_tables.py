#!/venv/bin/python
"""Regenerates the automatically maintained tables of DESIGN.md (between AUTO markers) from
known_findings.json, seeded/*/meta.json and MANIFEST.json."""
import glob
import json
import os
import re

V = "/verif"


def fixes_table():
    d = json.load(open(os.path.join(V, "known_findings.json")))
    rows = ["| property | /repo commit | what failed (witness) |", "|---|---|---|"]
    for f in d["findings"]:
        if f["status"] == "fixed":
            rows.append("| %s | `%s` | %s |" % (f["property"], f["commit"], f["what"].replace("|", "\\|")))
    return "\n".join(rows)


def open_table():
    d = json.load(open(os.path.join(V, "known_findings.json")))
    groups = {}
    for f in d["findings"]:
        if f["status"] != "open":
            continue
        key = (f["property"], re.sub(r"-(script|style|xmp|iframe|noembed|noframes|noscript|text|attr|reads|chunk|bytes|bytereads|element|not-emitted|attribute|scheme|comment|EndTag|Character|StartTag|Comment|omit|datagrid|dialog|dir|utf-16le|utf-16be)$", "", f["id"]))
        groups.setdefault(key, []).append(f)
    rows = ["| property | finding (ids) | what fails, why it is recorded rather than repaired |", "|---|---|---|"]
    for (pid, gid), fs in sorted(groups.items()):
        ids = ", ".join(f["id"] for f in fs) if len(fs) <= 3 else "%s-* (%d entries)" % (gid, len(fs))
        rows.append("| %s | %s | %s |" % (pid, ids, fs[0]["what"].replace("|", "\\|")))
    return "\n".join(rows)


def seeded_table():
    rows = ["| seeded change | property | what it needs to manifest | caught by (quick tier) |", "|---|---|---|---|"]
    for m in sorted(glob.glob(os.path.join(V, "seeded", "*", "meta.json"))):
        meta = json.load(open(m))
        needs = meta.get("needs", "")
        rows.append("| `%s` | %s | %s | %s |" % (meta["name"], meta["property"], needs.replace("|", "\\|"),
                                              ", ".join(meta.get("caught_by") or []) or "**missed**"))
    return "\n".join(rows)


def main():
    p = os.path.join(V, "DESIGN.md")
    s = open(p).read()
    for name, fn in (("FIXES", fixes_table), ("OPEN", open_table), ("SEEDED", seeded_table)):
        b, e = "<!-- BEGIN AUTO:%s -->" % name, "<!-- END AUTO:%s -->" % name
        if b in s:
            s = s[:s.index(b) + len(b)] + "\n" + fn() + "\n" + s[s.index(e):]
    open(p, "w").write(s)


if __name__ == "__main__":
    main()
