#!/venv/bin/python
"""seed_eval.py <worktree> <PROPERTY> <seed-name> [--tier quick|thorough] [--checks C01,C04]

Confirms a sub-agent's property-breaking change (tests pass with it, DEMO fails with it and passes without),
stores it under /verif/seeded/<seed-name>/ and runs the named checks (default: the property's own) against a
scratch copy of /repo with the patch applied (VERIF_REPO), reporting whether they catch it.
"""
import json
import os
import shutil
import subprocess
import sys
import time

VERIF = "/verif"


def sh(cmd, cwd=None, env=None, timeout=3600):
    r = subprocess.run(cmd, shell=True, cwd=cwd, env=env, capture_output=True, text=True, timeout=timeout)
    return r.returncode, r.stdout + r.stderr


def main():
    wt, pid, name = sys.argv[1], sys.argv[2], sys.argv[3]
    tier = "quick"
    checks = [pid]
    if "--tier" in sys.argv:
        tier = sys.argv[sys.argv.index("--tier") + 1]
    if "--checks" in sys.argv:
        checks = sys.argv[sys.argv.index("--checks") + 1].split(",")
    out = os.path.join(VERIF, "seeded", name)
    os.makedirs(out, exist_ok=True)
    rc, diff = sh("git diff -- html5lib", cwd=wt)
    if not diff.strip():
        print("no diff in", wt)
        return 2
    with open(os.path.join(out, "patch.diff"), "w") as f:
        f.write(diff)
    meta = {"property": pid, "name": name, "worktree": wt, "confirmed": {}}
    # 1. the existing suite passes with the change
    rc, o = sh("/venv/bin/python -m pytest -q -p no:cacheprovider 2>&1 | tail -1", cwd=wt)
    meta["confirmed"]["suite_with_change"] = o.strip()
    suite_ok = " passed" in o and "failed" not in o
    # 2. DEMO fails with the change and passes without
    demo = os.path.join(wt, "DEMO.py")
    demo_ok = False
    if os.path.exists(demo):
        shutil.copy(demo, os.path.join(out, "DEMO.py"))
        rc1, o1 = sh("/venv/bin/python DEMO.py", cwd=wt)
        # (not `git stash`: the stash stack is shared by all worktrees of a repository, so parallel evaluations cross)
        sh("git diff -- html5lib > .seed_patch.tmp && git checkout -- html5lib", cwd=wt)
        rc0, o0 = sh("/venv/bin/python DEMO.py", cwd=wt)
        sh("git apply .seed_patch.tmp && rm -f .seed_patch.tmp", cwd=wt)
        meta["confirmed"]["demo_with_change"] = {"exit": rc1, "tail": o1.strip()[-300:]}
        meta["confirmed"]["demo_without_change"] = {"exit": rc0, "tail": o0.strip()[-300:]}
        demo_ok = rc1 != 0 and rc0 == 0
    if os.path.exists(os.path.join(wt, "NOTES.md")):
        shutil.copy(os.path.join(wt, "NOTES.md"), os.path.join(out, "NOTES.md"))
    meta["confirmed"]["ok"] = bool(suite_ok and demo_ok)
    # 3. run the checks against a scratch copy of /repo with the patch applied
    scratch = "/dev/shm/seed-%s" % name
    shutil.rmtree(scratch, ignore_errors=True)
    os.makedirs(scratch)
    sh("cp -r /repo/html5lib %s/" % scratch)
    rc, o = sh("patch -p1 -s < %s" % os.path.join(out, "patch.diff"), cwd=scratch)
    meta["patch_applies_to_current_repo"] = rc == 0
    results = {}
    if rc == 0:
        env = dict(os.environ)
        env["VERIF_REPO"] = scratch
        for c in checks:
            t0 = time.time()
            # evidence must not be overwritten by mutant runs: run in a private copy of /verif? the evidence
            # file is rewritten; restore it from git afterwards
            rc, o = sh("/venv/bin/python run.py check %s --tier %s" % (c, tier), cwd=VERIF, env=env, timeout=7200)
            sh("git checkout -- evidence/%s.json" % c, cwd=VERIF)
            viol = [l for l in o.splitlines() if l.startswith("VIOLATION")]
            what = [l.strip() for l in o.splitlines() if l.strip().startswith("harness=")]
            results[c] = {"exit": rc, "violations": len(viol), "first": (what[0][:300] if what else ""), "seconds": round(time.time() - t0)}
            print(name, c, "exit", rc, len(viol), "violation lines;", what[0][:200] if what else "")
    else:
        print("patch does not apply:", o[:300])
    shutil.rmtree(scratch, ignore_errors=True)
    meta["checks_run"] = results
    meta["caught_by"] = [c for c, r in results.items() if r["exit"] == 1 and r["violations"] > 0]
    with open(os.path.join(out, "meta.json"), "w") as f:
        json.dump(meta, f, indent=1)
    print(json.dumps({"name": name, "confirmed": meta["confirmed"]["ok"], "caught_by": meta["caught_by"]}))
    return 0


if __name__ == "__main__":
    sys.exit(main())
