#!/venv/bin/python
"""kf.py fixed <PID> <id> <commit> <what>   |   kf.py open <PID> <id> <harness> <diff_class|-> <what> [json-case]"""
import json, sys
P = "/verif/known_findings.json"
d = json.load(open(P))
a = sys.argv
if a[1] == "fixed":
    d["findings"].append({"property": a[2], "id": a[3], "status": "fixed", "commit": a[4], "what": a[5],
                          "record": "fixed: property=%s %s %s" % (a[2], a[4], a[5])})
elif a[1] == "open":
    e = {"property": a[2], "id": a[3], "status": "open", "harness": a[4], "what": a[6]}
    if a[5] != "-":
        e["signature"] = {"diff_class": a[5]}
    if len(a) > 7:
        e["case"] = json.loads(a[7])
    d["findings"].append(e)
json.dump(d, open(P, "w"), indent=1)
