import json
import os
import sys

HERE = os.path.dirname(os.path.dirname(os.path.abspath(__file__)))
sys.path.insert(0, HERE)

from ref import tokenizer as rt          # noqa
from ref import treebuilder as rtb       # noqa
from ref import prescan, urlscheme, optional_tags   # noqa
from mc import trees                      # noqa

HTML = "http://www.w3.org/1999/xhtml"


def toks(s, **kw):
    return rt.tokenize(s, **kw)[0]


def test_tokenizer_character_references():
    assert toks("&notit;") == [("Character", "¬it;")]
    assert toks("&notin;") == [("Character", "∉")]
    assert toks("&amp") == [("Character", "&")]
    assert toks("<a b='&amp='>") == [("StartTag", "a", [("b", "&amp=")], False)]
    assert toks("<a b='&ampx'>") == [("StartTag", "a", [("b", "&ampx")], False)]
    assert toks("<a b='&amp;x'>") == [("StartTag", "a", [("b", "&x")], False)]
    assert toks("&#x80;&#0;&#xD800;&#x110000;&#65") == [("Character", "€���A")]


def test_tokenizer_tags_comments_doctype():
    assert toks("<A B=1 b=2 C>") == [("StartTag", "a", [("b", "1"), ("c", "")], False)]
    assert toks("<br/>") == [("StartTag", "br", [], True)]
    assert toks("<!--a--!>b") == [("Comment", "a"), ("Character", "b")]
    assert toks("<!-->x") == [("Comment", ""), ("Character", "x")]
    assert toks("<!--a<!--b-->") == [("Comment", "a<!--b")]
    assert toks("<!DOCTYPE html>") == [("DOCTYPE", "html", None, None, False)]
    assert toks("<!DOCTYPE a PUBLIC 'x' \"y\">") == [("DOCTYPE", "a", "x", "y", False)]
    assert toks("<!DOCTYPE") == [("DOCTYPE", None, None, None, True)]
    assert toks("a\r\nb\rc") == [("Character", "a\nb\nc")]


def test_tokenizer_script_double_escape():
    t = toks("<!--<script></script>--></script>x", state="script_data", last_start_tag="script")
    assert t == [("Character", "<!--<script></script>-->"), ("EndTag", "script"), ("Character", "x")]
    t = toks("<!--<script></SCRIPT></script>x", state="script_data", last_start_tag="script")
    assert t == [("Character", "<!--<script></SCRIPT>"), ("EndTag", "script"), ("Character", "x")]
    assert toks("</title>", state="rcdata", last_start_tag="textarea") == [("Character", "</title>")]


def flat(tree):
    """compact rendering: name(children...) with text in quotes"""
    out = []
    for n in tree:
        if n[0] == "elem":
            out.append(n[2] + ("(" + flat(n[4]) + ")" if n[4] else ""))
        elif n[0] == "text":
            out.append(repr(n[1]))
        else:
            out.append("<%s>" % n[0])
    return " ".join(out)


def test_treebuilder_adoption_agency_examples_of_the_standard():
    # "Misnested tags: <b><i></b></i>" and "<b><p></b></p>" of section 13.2.10
    assert flat(rtb.parse("<p>1<b>2<i>3</b>4</i>5</p>")) == "html(head body(p('1' b('2' i('3')) i('4') '5')))"
    assert flat(rtb.parse("<b>1<p>2</b>3</p>")) == "html(head body(b('1') p(b('2') '3')))"
    # unexpected markup in tables
    assert flat(rtb.parse("<table><b><tr><td>aaa</td></tr>bbb</table>ccc")) == \
        "html(head body(b b('bbb') table(tbody(tr(td('aaa')))) b('ccc')))"


def test_treebuilder_misc():
    assert flat(rtb.parse("<!DOCTYPE html><title>a</title>x")) == "<doctype> html(head(title('a')) body('x'))"
    assert flat(rtb.parse("<ruby>a<rb>b<rt>c<rtc>d<rt>e")) == "html(head body(ruby('a' rb('b') rt('c') rtc('d' rt('e')))))"
    assert flat(rtb.parse("<b><b><b><b>x</b></b></b></b>y<p>z")) .startswith("html(head body(b(b(b(b('x')))) 'y' p(")
    assert flat(rtb.parse("<td>x", context="tr")) == "td('x')"
    # </svg> seen inside the HTML <p> is ignored (p is special): the text stays in the paragraph
    assert flat(rtb.parse("<svg><foreignObject><p>a</svg>b")) == "html(head body(svg(foreignObject(p('ab')))))"
    assert flat(rtb.parse("<svg><foreignObject><p>a</p></foreignObject></svg>b")) == "html(head body(svg(foreignObject(p('a'))) 'b'))"
    assert flat(rtb.parse("<pre>\n\nx")) == "html(head body(pre('\\nx')))"
    assert flat(rtb.parse("</br><frameset>")) == "html(head body(br))"


def test_prescan_and_urlscheme():
    assert prescan.prescan(b"<meta charset=koi8-r>") == "koi8-r"
    assert prescan.prescan(b"<!--><meta charset=koi8-r>") == "koi8-r"
    assert prescan.prescan(b"<meta charset=bogus charset=koi8-r>") is None
    assert prescan.prescan(b'<meta content="x;charset=koi8-r;y" http-equiv=Content-Type>') == "koi8-r"
    assert prescan.prescan(b"<meta charset=utf-16>") == "utf-8"
    assert urlscheme.scheme(" java\tscript:x") == "javascript"
    assert urlscheme.scheme("java script:x") is None
    assert urlscheme.scheme("//x") is None


def test_optional_tags_reference():
    st = lambda n, **kw: {"type": "StartTag", "name": n, "namespace": HTML, "data": kw}   # noqa
    et = lambda n: {"type": "EndTag", "name": n, "namespace": HTML}                     # noqa
    assert optional_tags.may_omit(None, et("p"), st("div"))
    assert not optional_tags.may_omit(None, et("p"), et("a"))
    assert not optional_tags.may_omit(None, et("p"), st("dialog"))
    assert not optional_tags.may_omit(None, st("body"), {"type": "EmptyTag", "name": "link", "namespace": HTML, "data": {}})
    assert not optional_tags.may_omit(None, st("h"), None)


def _toy_step(word):
    # a 3-state counter machine; the "implementation" and the "reference" agree except on the word (1, 1, 1)
    state = sum(word) % 3
    v = None
    if word == (1, 1, 1):
        from mc import engine
        v = engine.Violation("toy", {}, list(word), 0, 1, "toy", "toy")
    return (("s", state, len(word) >= 3 and word[-3:] == (1, 1, 1)), str(state), v)


def test_product_bfs_prunes_and_still_finds_the_violation():
    from mc import engine
    res = engine.product_bfs(_toy_step, 2, 6)
    engine.close_pool()
    assert res.states <= 8
    assert any(v.case == [1, 1, 1] for v in res.violations)


def test_known_finding_matching():
    from mc import engine
    known = [{"property": "X", "id": "k", "status": "open", "harness": "h", "signature": {"diff_class": "c1"}},
             {"property": "X", "id": "f", "status": "fixed", "harness": "h", "signature": {"diff_class": "c2"}}]
    assert engine.match_known(known, "X", {"harness": "h", "case": 1, "diff_class": "c1", "config": {}})["id"] == "k"
    assert engine.match_known(known, "X", {"harness": "h", "case": 1, "diff_class": "c2", "config": {}}) is None     # fixed suppresses nothing
    assert engine.match_known(known, "Y", {"harness": "h", "case": 1, "diff_class": "c1", "config": {}}) is None


def test_known_finding_case_does_not_match_when_the_signature_differs():
    # (a seeded change was once masked because the witness text of a finding equalled the shortest failing input of
    # a different failure)
    from mc import engine
    known = [{"property": "X", "id": "k", "status": "open", "harness": "h", "case": "doc",
              "signature": {"diff_class": "not-recovered:utf-16le"}}]
    assert engine.match_known(known, "X", {"harness": "h", "case": "doc", "diff_class": "not-recovered", "config": {}}) is None
    assert engine.match_known(known, "X", {"harness": "h", "case": "other", "diff_class": "not-recovered:utf-16le", "config": {}})["id"] == "k"


def _looping_step(word):
    if word == (1, 0):
        while True:
            pass
    return (word[-1:] if word else (), "o", None)


def test_a_step_that_does_not_terminate_is_reported_not_hung():
    from mc import engine
    old = engine.STEP_LIMIT
    engine.STEP_LIMIT = 0.5
    try:
        r = engine.guarded_step(_looping_step, None, (1, 0))
        assert r[0] == ("nontermination",) and r[2].diff_class == "nontermination" and r[2].case == [1, 0]
        assert engine.guarded_step(_looping_step, None, (0, 1))[2] is None
        # nested limits: leaving the inner one re-arms the outer one
        try:
            with engine.time_limit(0.6):
                with engine.time_limit(5):
                    pass
                while True:
                    pass
            raise AssertionError("outer limit lost")
        except engine.StepTimeout:
            pass
    finally:
        engine.STEP_LIMIT = old


def test_prescan_reference_edge_cases_found_in_wave_3():
    assert prescan.prescan(b"<<meta charset=koi8-r>") == "koi8-r"
    assert prescan.prescan(b"<meta/charset=koi8-r>") == "koi8-r"
    assert prescan.prescan(b"<metax <meta charset=koi8-r>") is None
    assert prescan.prescan(b"</>x<meta charset=koi8-r>") == "koi8-r"
    assert prescan.prescan(b"<a<meta charset=koi8-r>") is None
    assert prescan.prescan(b"<meta charset=koi8-r ") is None
    assert prescan.prescan(b"<!-- > <meta charset=koi8-r> -->") is None


def test_quirks_mode_reference():
    q = rtb.TreeBuilder.quirks_mode
    assert q(("DOCTYPE", "html", None, None, False)) == "no-quirks"
    assert q(("DOCTYPE", "html", "-//W3C//DTD HTML 4.01 Transitional//EN", None, False)) == "quirks"
    assert q(("DOCTYPE", "html", "-//W3C//DTD HTML 4.01 Transitional//EN", "", False)) == "limited-quirks"
    assert q(("DOCTYPE", "html", "-//W3C//DTD XHTML 1.0 Frameset//EN", None, False)) == "limited-quirks"
    assert q(("DOCTYPE", "html", "-//W3C//DTD HTML 3.2//EN", None, False)) == "quirks"
    assert q(("DOCTYPE", "html", None, "http://www.ibm.com/data/dtd/v11/ibmxhtml1-transitional.dtd", False)) == "quirks"
    assert q(("DOCTYPE", "htm", None, None, False)) == "quirks"


def test_thread_scheduler_finds_a_lost_update():
    from mc import sched
    repo = os.path.join(HERE, "tests", "fake_repo")
    sys.path.insert(0, repo)
    import html5lib as toy
    assert toy.__file__.startswith(repo)

    def body():
        return toy.incr()

    def run_plan(plan):
        toy.COUNTER[0] = 0
        res, pts = sched.run_plan([body, body], plan, repo)
        return toy.COUNTER[0]
    assert run_plan([(0, None), (1, None)]) == 2
    # preempt thread 0 after its read (2 call points: incr, read) -> both read 0 -> lost update
    outcomes = set()
    for i in range(1, 5):
        outcomes.add(run_plan([(0, i), (1, None), (0, None)]))
    assert 1 in outcomes and 2 in outcomes
    sys.path.remove(repo)
    del sys.modules["html5lib"]


def test_committed_evidence_validates():
    try:
        import jsonschema
    except ImportError:
        return
    schema = json.load(open("/root/.vp/EVIDENCE.schema.json"))
    for f in os.listdir(os.path.join(HERE, "evidence")):
        jsonschema.validate(json.load(open(os.path.join(HERE, "evidence", f))), schema)
