"""toy 'library' with a module-level counter: used to self-test the thread scheduler"""
COUNTER = [0]


def read():
    return COUNTER[0]


def write(v):
    COUNTER[0] = v


def incr():
    v = read()
    write(v + 1)
    return v + 1
