"""C04 - the parsed tree does not depend on the tree builder chosen.

PB differential: BFS over markup-letter themes; every word is parsed by six configurations
(etree root form, etree fullTree, dom) x namespaceHTMLElements {True, False}, in document mode and in
fragment mode for several containers.  Oracle: all canonical trees (direct traversal, attributes as a
mapping, 'no namespace' == HTML namespace) are equal; the etree root form equals the html subtree of the
full tree.  State key: suspended dom-parser key + the etree builder's own extra state (consistency of its
shadow child lists on live nodes).
"""
import os

from mc import engine, drive, trees
from checks import treewords as tw

H = "c04_builders"


def six(text, container):
    out = {}
    for ns in (True, False):
        out[("dom", ns)] = tw.parse_dom(text, container, ns=ns)
        out[("etree-full", ns)] = tw.parse_etree(text, container, ns=ns, full=True)
        if container is None:
            out[("etree-root", ns)] = tw.parse_etree(text, container, ns=ns, full=False)
    return out


def norm(t):
    return trees.sort_attrs(trees.html_ns(t))


_PREFIX = {"http://www.w3.org/1999/xlink": "xlink", "http://www.w3.org/XML/1998/namespace": "xml",
           "http://www.w3.org/2000/xmlns/": "xmlns"}


def minidom_collisions(tree):
    """Emulation of ONE recorded deviation, used only to NAME a disagreement (never as the oracle): xml.dom.minidom
    derives an attribute's localName by splitting its name at ':' and keeps one attribute per (namespaceURI,
    localName), so on the same element 'a:b' and 'b' (both without namespace) evict each other; the later one wins."""
    if isinstance(tree, tuple) and tree and tree[0] == "elem":
        kept = []          # (nodeName, nskey, attr)
        for (ns, name), value in tree[3]:
            if ns is None:
                node_name, nskey = name, (None, name.split(":", 1)[-1])
            else:
                pre = _PREFIX.get(ns)
                node_name, nskey = ((pre + ":" + name) if pre else name), (ns, name)
                if ns == "http://www.w3.org/2000/xmlns/" and name == "xmlns":
                    node_name = "xmlns"
            kept = [k for k in kept if k[0] != node_name and k[1] != nskey]
            kept.append((node_name, nskey, ((ns, name), value)))
        return ("elem", tree[1], tree[2], tuple(k[2] for k in kept), tuple(minidom_collisions(c) for c in tree[4]))
    if isinstance(tree, tuple) and tree and isinstance(tree[0], tuple):
        return tuple(minidom_collisions(c) for c in tree)
    return tree


def judge(text, container):
    """-> None | (what, diff_class, expected, actual)"""
    try:
        r = six(text, container)
    except Exception as e:       # a crash is C03's business, but it also means the builders disagree
        return ("a builder raised %s: %s" % (type(e).__name__, str(e)[:100]), "raised:" + type(e).__name__, None, None)
    ref_key = ("dom", True)
    ref = norm(r[ref_key])
    et = r[("etree-full", True)]
    if norm(et) != ref and norm(minidom_collisions(et)) == ref and all(
            norm(t) == norm(et) for k, t in r.items() if k[0] == "etree-full") and norm(r[("dom", False)]) == ref:
        return ("the dom builder drops an attribute whose name collides, after splitting at ':', with another attribute of the "
                "same element (etree keeps both)", "dom:colon-name-collision", norm(et), ref)
    for k, t in r.items():
        if k[0] == "etree-root":
            full = norm(r[("etree-full", k[1])])
            html = trees.find_html(full)
            got = norm(t)
            if (html,) != tuple(got):
                return ("etree root-element form differs from the html subtree of the full tree (ns=%s)" % k[1],
                        "root-vs-full", (html,), got)
            continue
        if norm(t) != ref:
            return ("%s (namespaceHTMLElements=%s) differs from dom (True)" % k, "%s:%s" % k + ":" + shape_diff(ref, norm(t)),
                    ref, norm(t))
    return None


def shape_diff(a, b):
    """coarse description of the first difference (used only to group violations)"""
    def first(x, y, path):
        if x == y:
            return None
        if isinstance(x, tuple) and isinstance(y, tuple) and x and y and x[0] == "elem" and y[0] == "elem":
            if x[1:3] != y[1:3]:
                return "name"
            if x[3] != y[3]:
                return "attrs"
            return first(x[4], y[4], path + 1)
        if isinstance(x, tuple) and isinstance(y, tuple) and (not x or isinstance(x[0], tuple)) and (not y or isinstance(y[0], tuple)):
            if len(x) != len(y):
                return "child-count"
            for c, d in zip(x, y):
                r = first(c, d, path + 1)
                if r:
                    return r
            return None
        if isinstance(x, tuple) and isinstance(y, tuple) and x and y and x[0] == y[0]:
            return x[0]
        return "kind"
    return first(a, b, 0) or "?"


def etree_extra(text, container):
    try:
        p, snap = drive.suspended_parse(text, builder="etree", container=container)
        t = p.tree
        nodes = list(t.openElements) + ([t.headPointer] if t.headPointer is not None else []) + [t.document]
        return tuple(list(n._element) == [c._element for c in n._childNodes] for n in nodes)
    except Exception as e:
        return ("unavailable", type(e).__name__)


def step(ctx, word):
    theme, container = ctx
    text = tw.text_of(theme, word)
    j = judge(text, container)
    v = None
    if j is not None:
        v = engine.Violation(H, {"theme": theme, "container": container}, text, j[2], j[3], j[0], j[1])
    try:
        p, snap = drive.suspended_parse(text, builder="dom", container=container)
        key = (drive.parser_key(p, snap), etree_extra(text, container))
    except Exception as e:
        key = ("crash", text)
    obs = engine.digest(tw.parse_dom(text, container)) if j is None or j[2] is not None else "crash"
    return (key, obs, v)


def execute(config, case):
    j = judge(case, config.get("container"))
    if j is None:
        return None
    return engine.Violation(H, config, case, j[2], j[3], j[0], j[1])


def replay(harness, config, case):
    return execute(config, case)


# -- ATTR part: every ordered pair of attribute names that can interact, on HTML and foreign hosts ----------------

ATTR_NAMES = ["href", "xlink:href", "lang", "xml:lang", "a:b", "b", "xmlns:xlink", "xlink", "title", "xlink:title", ":b", "b:",
              "xmlns", "definitionurl", "viewbox"]
ATTR_HOSTS = ["<p %s>x", "<svg %s>x", "<math %s>x", "<svg><a %s>x", "<table %s><tr><td>x"]


def attr_cases():
    out = []
    for host in ATTR_HOSTS:
        for a in ATTR_NAMES:
            out.append(host % ("%s=1" % a))
            for b in ATTR_NAMES:
                if a != b:
                    out.append(host % ("%s=1 %s=2" % (a, b)))
    return out


def _attr_shard(texts):
    out = []
    for text in texts:
        for container in (None, "div"):
            j = judge(text, container)
            out.append(None if j is None else engine.Violation(H, {"theme": "ATTR", "container": container}, text, j[2], j[3], j[0], j[1]))
    return out


def _names_shard(cases):
    out = []
    for text, cont in cases:
        j = judge(text, cont)
        out.append(None if j is None else engine.Violation(H, {"theme": "NAMES", "container": cont}, text, j[2], j[3], j[0], j[1]))
    return out


def run(run):
    quick = run.tier == "quick"
    depth = {"T1": 4, "T2": 5, "T3": 5, "T4": 4, "T5": 3, "T6": 3, "T7": 4, "T8": 3, "TU": 2} if quick else \
            {"T1": 5, "T2": 6, "T3": 6, "T4": 5, "T5": 4, "T6": 4, "T7": 5, "T8": 4, "TU": 3}
    frag = {"T1": ["div", "td"], "T2": ["table", "tr", "tbody"], "T3": ["select"], "T5": ["div"], "T6": ["p"], "T7": ["title"]}
    only = os.environ.get("VERIF_THEMES")
    classes = {}
    tot_s = tot_t = bc = bf = 0
    obs = set()
    per = {}
    for theme, d in depth.items():
        if only and theme not in only.split(","):
            continue
        for container in [None] + (frag.get(theme, []) if True else []):
            dd = d if container is None else max(2, d - 1)
            res = engine.product_bfs(step, len(tw.THEMES[theme]), dd, bisim_depth=max(0, dd - 2), ctx=(theme, container))
            tot_s += res.states
            tot_t += res.transitions
            bc += res.bisim_checks
            bf += res.bisim_failures
            obs |= res.obs
            per["%s/%s" % (theme, container or "document")] = {"states": res.states, "transitions": res.transitions, "depth": dd}
            for pw, rep in res.bisim_examples:
                run.notes.append("abstraction_unsound: %s/%s pruned=%r representative=%r" % (
                    theme, container, tw.text_of(theme, pw), tw.text_of(theme, rep)))
            for v in res.violations:
                k = v.diff_class
                if k not in classes or len(v.case) < len(classes[k].case):
                    classes[k] = v
            run.sample({"theme": theme, "container": container, "text": tw.text_of(theme, tuple(range(2, 2 + dd)))})
    if not only or "ATTR" in only.split(","):
        cases = attr_cases()
        n = 0
        for vs in engine.pmap(_attr_shard, [cases[i:i + 100] for i in range(0, len(cases), 100)], chunksize=1):
            for v in vs:
                n += 1
                if v is not None and (v.diff_class not in classes or len(v.case) < len(classes[v.diff_class].case)):
                    classes[v.diff_class] = v
        tot_t += n
        per["ATTR"] = {"cases": n}
        run.sample({"theme": "ATTR", "text": cases[7]})
    if not only or "NAMES" in only.split(","):
        cases = sorted(set((t, c) for t, c, s in tw.name_cases()), key=repr)
        n = 0
        for vs in engine.pmap(_names_shard, [cases[i:i + 300] for i in range(0, len(cases), 300)], chunksize=1):
            for v in vs:
                n += 1
                if v is not None and (v.diff_class not in classes or len(v.case) < len(classes[v.diff_class].case)):
                    classes[v.diff_class] = v
        tot_t += n
        per["NAMES"] = {"cases": n}
    for v in classes.values():
        run.violation(v)
    run.set("states", tot_s)
    run.set("transitions", tot_t)
    run.set("traces_validated_against_impl", tot_t)
    run.set("parses_executed", tot_t * 6)
    run.set("distinct_observations", len(obs))
    run.set("bisimulation_checks", bc)
    run.set("abstraction_unsound", bf)
    run.set("themes", per)
    run.set("exhaustive", True)
    return run.finish("model_checking")
