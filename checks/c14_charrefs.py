"""C14 - every character reference decodes to the standard's replacement.

FE over complete finite domains:
 (a) every name of html.entities.html5 (2231, with and without ';') x follower class x 6 contexts
     (data, RCDATA title/textarea, double-/single-/un-quoted attribute), through the real tokenizer and
     through parseFragment;
 (b) every numeric value 0..0x110000 (+ overflow / leading-zero forms) x {dec, x, X} x {';', none} through
     the tokenizer in data state, a partition of them in the attribute / RCDATA contexts and through the parser;
 (c) reverse: every code point as text and as attribute value, serialized with encoding=ascii (and
     latin-1 / koi8-r / utf-8 on a partition), parsed back.
Oracle: a 40-line reference decoder (longest match over the stdlib table + attribute exception; numeric
table from the cp1252 codec).
"""
import html.entities
import itertools

from mc import engine, drive

def _number(digits, base):
    """value of a digit string, saturating just above the last code point (the standard's algorithm saturates too;
    int() on thousands of digits is refused by Python >= 3.11)"""
    v = 0
    for ch in digits:
        v = v * base + int(ch, base)
        if v > 0x10FFFF:
            return 0x110000
    return v


H = "c14_refs"
NAMED = html.entities.html5
MAXLEN = max(len(k) for k in NAMED)
ALNUM = set("abcdefghijklmnopqrstuvwxyzABCDEFGHIJKLMNOPQRSTUVWXYZ0123456789")
C1 = {}
for _b in range(0x80, 0xA0):
    try:
        C1[_b] = bytes([_b]).decode("cp1252")
    except UnicodeDecodeError:
        pass

FOLLOWERS = ["", ";", "=", "a", "Z", "1", " ", "<", "&", '"', "'", ">", "x;"]
CONTEXTS = ["data", "rcdata-title", "rcdata-textarea", "attr-dq", "attr-sq", "attr-unq"]


def numeric(value):
    if value == 0 or value > 0x10FFFF or 0xD800 <= value <= 0xDFFF:
        return "�"
    if value in C1:
        return C1[value]
    return chr(value)


def decode(text, in_attr):
    """reference decoding of character references in `text` (no markup handling)"""
    out = []
    i, n = 0, len(text)
    while i < n:
        c = text[i]
        if c != "&":
            out.append(c)
            i += 1
            continue
        j = i + 1
        if text[j:j + 1] == "#":
            k = j + 1
            hexa = text[k:k + 1] in ("x", "X")
            if hexa:
                k += 1
            digits = "0123456789abcdefABCDEF" if hexa else "0123456789"
            m = k
            while m < n and text[m] in digits:
                m += 1
            if m == k:
                out.append(text[i:k])       # "&#" or "&#x": literal
                i = k
                continue
            out.append(numeric(_number(text[k:m], 16 if hexa else 10)))
            if text[m:m + 1] == ";":
                m += 1
            i = m
            continue
        best = None
        for L in range(min(MAXLEN, n - j), 0, -1):
            if text[j:j + L] in NAMED:
                best = text[j:j + L]
                break
        if best is None:
            out.append("&")
            i += 1
            continue
        nxt = text[j + len(best):j + len(best) + 1]
        if in_attr and not best.endswith(";") and nxt != "" and (nxt == "=" or nxt in ALNUM):
            out.append("&" + best)
        else:
            out.append(NAMED[best])
        i = j + len(best)
    return "".join(out)


def normalise_newlines(s):
    return s.replace("\r\n", "\n").replace("\r", "\n")


def expected_for(ctx, raw):
    """-> expected decoded string, or None when the construct does not yield an observable value"""
    raw = normalise_newlines(raw)
    if ctx == "data":
        if "<" in raw:
            # the only follower with "<" is a lone "<" at EOF, which is emitted as text
            assert raw.endswith("<") and raw.count("<") == 1
            return decode(raw[:-1], False) + "<"
        return decode(raw, False)
    if ctx.startswith("rcdata"):
        return decode(raw, False)
    if ctx == "attr-dq":
        if '"' in raw:
            raw = raw[:raw.index('"')]
        return decode(raw, True)
    if ctx == "attr-sq":
        if "'" in raw:
            raw = raw[:raw.index("'")]
        return decode(raw, True)
    if ctx == "attr-unq":
        for k, ch in enumerate(raw):
            if ch in "\t\n\x0c >":
                raw = raw[:k]
                break
        if raw == "":
            return None
        if raw[0] in "\"'":
            return None                     # would be parsed as a quoted value
        return decode(raw, True)
    raise ValueError(ctx)


def via_tokenizer(ctx, raw):
    if ctx == "data":
        toks = drive.impl_tokenize(raw, "data")
        return "".join(t[1] for t in toks if t[0] == "Character")
    if ctx.startswith("rcdata"):
        name = ctx.split("-")[1]
        toks = drive.impl_tokenize(raw, "rcdata", name)
        return "".join(t[1] for t in toks if t[0] == "Character")
    q = {"attr-dq": '"', "attr-sq": "'", "attr-unq": ""}[ctx]
    toks = drive.impl_tokenize("<a b=%s%s%s>" % (q, raw, q), "data")
    for t in toks:
        if t[0] == "StartTag":
            d = dict(t[2])
            return d.get("b")
    return None


def via_parser(ctx, raw):
    import html5lib
    if ctx == "data":
        frag = html5lib.parseFragment(raw, container="div", treebuilder="etree", namespaceHTMLElements=False)
        return frag.text or ""
    if ctx.startswith("rcdata"):
        name = ctx.split("-")[1]
        frag = html5lib.parseFragment(raw, container=name, treebuilder="etree", namespaceHTMLElements=False)
        return frag.text or ""
    q = {"attr-dq": '"', "attr-sq": "'", "attr-unq": ""}[ctx]
    frag = html5lib.parseFragment("<a b=%s%s%s>" % (q, raw, q), container="div", treebuilder="etree",
                                  namespaceHTMLElements=False)
    if len(frag) and frag[0].tag == "a":
        return frag[0].attrib.get("b")
    return None


def judge(ctx, raw, route):
    exp = expected_for(ctx, raw)
    if exp is None:
        return None
    if ctx == "data" and route == "parser":
        exp = exp.replace("\x00", "")       # tree construction drops NUL in body
        if "<" in raw:
            return None
    if ctx.startswith("rcdata"):
        exp = exp.replace("\x00", "�")
        # (fragment case: no <textarea> start tag is processed, so a leading newline is kept)
    if ctx.startswith("attr"):
        exp = exp.replace("\x00", "�")
    got = via_tokenizer(ctx, raw) if route == "tokenizer" else via_parser(ctx, raw)
    if got != exp:
        return (exp, got)
    return None


def execute(config, case):
    if config.get("kind") == "reverse":
        r = judge_reverse(case, config["encoding"], config["where"])
        if r is None:
            return None
        return engine.Violation(H, config, case, r[0], r[1], "serialized text does not decode back", "reverse:" + config["where"])
    r = judge(config["ctx"], case, config["route"])
    if r is None:
        return None
    return engine.Violation(H, config, case, r[0], r[1], "character reference decoded wrongly",
                            "%s:%s" % (config["ctx"], config["route"]))


def replay(harness, config, case):
    return execute(config, case)


# ---- shards -------------------------------------------------------------------------------------

def _named_shard(names):
    res = {"evals": 0, "viol": {}, "distinct": 0}
    for name in names:
        variants = [name] if not name.endswith(";") else [name, name[:-1]]
        for v in variants:
            for f in FOLLOWERS:
                raw = "&" + v + f
                res["distinct"] += 1
                for ctx in CONTEXTS:
                    for route in ("tokenizer", "parser"):
                        res["evals"] += 1
                        r = judge(ctx, raw, route)
                        if r is not None:
                            cls = "%s:%s:%s" % (ctx, route, "semi" if v.endswith(";") else "nosemi")
                            res["viol"].setdefault(cls, ({"ctx": ctx, "route": route}, raw, r))
    return res


def _numeric_forms(v):
    return ["&#%d;" % v, "&#%dz" % v, "&#x%x;" % v, "&#x%xz" % v, "&#X%X;" % v, "&#X%X" % v]


def _numeric_shard(args):
    lo, hi, full = args
    res = {"evals": 0, "viol": {}}
    for v in range(lo, hi):
        forms = _numeric_forms(v)
        for raw in forms:
            res["evals"] += 1
            r = judge("data", raw, "tokenizer")
            if r is not None:
                res["viol"].setdefault("data:tokenizer:numeric", ({"ctx": "data", "route": "tokenizer"}, raw, r))
        if full or (v & 0xFF) == 0 or v < 0x300 or 0xD700 <= v < 0xE100 or 0xFDC0 <= v < 0xFE10 or (v & 0xFFFF) >= 0xFFF0 \
                or (v & 0xFFFF) < 0x10:
            for ctx in ("attr-dq", "attr-unq", "rcdata-title"):
                for route in ("tokenizer", "parser"):
                    for raw in (forms[0], forms[3]):
                        res["evals"] += 1
                        r = judge(ctx, raw, route)
                        if r is not None:
                            res["viol"].setdefault("%s:%s:numeric" % (ctx, route), ({"ctx": ctx, "route": route}, raw, r))
    return res


def judge_reverse(text, encoding, where):
    """serialize `text` (as text node or attribute value) with an output encoding, parse back"""
    import html5lib
    from html5lib import serializer, treewalkers
    from collections import OrderedDict
    if where == "text":
        stream = [{"type": "StartTag", "name": "p", "namespace": "http://www.w3.org/1999/xhtml", "data": OrderedDict()},
                  {"type": "Characters", "data": text},
                  {"type": "EndTag", "name": "p", "namespace": "http://www.w3.org/1999/xhtml"}]
    else:
        stream = [{"type": "StartTag", "name": "p", "namespace": "http://www.w3.org/1999/xhtml",
                   "data": OrderedDict([((None, "title"), text)])},
                  {"type": "EndTag", "name": "p", "namespace": "http://www.w3.org/1999/xhtml"}]
    s = serializer.HTMLSerializer(omit_optional_tags=False, inject_meta_charset=False)
    out = s.render(stream, encoding)
    frag = html5lib.parseFragment(out, container="div", treebuilder="etree", namespaceHTMLElements=False,
                                  transport_encoding=encoding)
    if not len(frag) or frag[0].tag != "p":
        return (text, "no <p>: %r" % out)
    got = (frag[0].text or "") if where == "text" else frag[0].attrib.get("title")
    if got != text:
        return (text, got)
    return None


def _reverse_shard(args):
    lo, hi, encodings = args
    res = {"evals": 0, "viol": {}}
    for cp in range(lo, hi):
        if 0xD800 <= cp <= 0xDFFF or cp in (0, 0x0D):
            continue
        ch = chr(cp)
        for enc in encodings:
            mismatch = False
            try:
                import webencodings
                w = webencodings.lookup(enc)
                # the serializer encodes with the Python codec registered under the label, the parser decodes with the
                # WHATWG encoding of that label: for shift_jis these are different tables (Python shift_jis vs windows-31j)
                mismatch = w is not None and w.codec_info.decode(ch.encode(enc))[0] != ch
            except (UnicodeError, LookupError):
                pass
            for where in ("text", "attr"):
                text = "a" + ch + "b"
                res["evals"] += 1
                r = judge_reverse(text, enc, where)
                if r is not None:
                    cls = "reverse:%s:%s" % (where, "C1" if 0x80 <= cp <= 0x9F else ("ctl" if cp < 0x20 else "other"))
                    if mismatch and not 0x80 <= cp <= 0x9F:      # (the C1 range has its own, older finding)
                        cls = "reverse:codec-mismatch:%s" % enc
                    res["viol"].setdefault(cls, ({"kind": "reverse", "encoding": enc, "where": where}, text, r))
    return res


def run(run):
    quick = run.tier == "quick"
    names = sorted(NAMED)
    classes = {}

    def absorb(r, kind):
        run.add("evaluations", r["evals"])
        for cls, (cfg, raw, jr) in r["viol"].items():
            if cls not in classes:
                classes[cls] = (cfg, raw, jr)
    # (a) named
    chunks = [names[i:i + 32] for i in range(0, len(names), 32)]
    distinct = 0
    for r in engine.pmap(_named_shard, chunks, chunksize=1):
        absorb(r, "named")
        distinct += r["distinct"]
    run.set("named_references_x_followers", distinct)
    # (b) numeric: complete over 0..0x110000 in data state (6 forms); contexts on a partition (quick) / all (thorough)
    step = 0x800
    shards = [(lo, min(lo + step, 0x110001), not quick) for lo in range(0, 0x110001, step)]
    for r in engine.pmap(_numeric_shard, shards, chunksize=1):
        absorb(r, "numeric")
    run.set("numeric_values", 0x110001)
    over = []
    for digits in (9, 10, 16, 25, 40, 4300, 4301, 5000, 20000):      # (int() refuses more than 4300 digits since Python 3.11)
        over += ["&#x" + "1" + "0" * (digits - 1) + ";", "&#" + "9" * digits + ";", "&#x" + "f" * digits, "&#" + "0" * digits + "65;",
                 "&#x" + "0" * digits + "41z"]
    over += ["&#;", "&#x;", "&#xg", "&#a", "&#", "&#x", "&#X", "&x", "&;", "&", "&#1114112;", "&#x110000;", "&#xD800;", "&#55296;",
             "&#0;", "&#x0;", "&#13;", "&#x0d;", "&#128;", "&#x80;", "&#x9f;", "&#x81;"]
    for raw in over:
        for ctx in CONTEXTS:
            for route in ("tokenizer", "parser"):
                run.add("evaluations")
                r = judge(ctx, raw, route)
                if r is not None:
                    classes.setdefault("%s:%s:overflow" % (ctx, route), ({"ctx": ctx, "route": route}, raw, r))
    # (c) reverse direction
    if quick:
        rshards = [(lo, min(lo + 0x400, 0x110000), ["ascii"]) for lo in range(0, 0x30000, 0x400)]
        rshards += [(lo, lo + 0x40, ["ascii"]) for lo in range(0x30000, 0x110000, 0x1000)]
        rshards += [(lo, min(lo + 0x400, 0x3000), ["iso-8859-1", "koi8-r", "utf-8"]) for lo in range(0, 0x3000, 0x400)]
    else:
        rshards = [(lo, min(lo + 0x400, 0x110000), ["ascii"]) for lo in range(0, 0x110000, 0x400)]
        rshards += [(lo, min(lo + 0x400, 0x10000), ["iso-8859-1", "koi8-r", "utf-8", "shift_jis"]) for lo in range(0, 0x10000, 0x400)]
    for r in engine.pmap(_reverse_shard, rshards, chunksize=1):
        absorb(r, "reverse")
        run.add("reverse_evaluations", r["evals"])
    for cls, (cfg, raw, jr) in sorted(classes.items()):
        what = "serialized text does not decode back" if cfg.get("kind") == "reverse" else "character reference decoded wrongly"
        run.violation(engine.Violation(H, cfg, raw, jr[0], jr[1], what, cls))
    for s in ["&notit;", "&notin;x", "&amp=", "&#x80;", "&#1114112;"]:
        run.sample({"raw": s, "data": decode(s, False), "attribute": decode(s, True)})
    run.set("distinct_nontrivial", distinct + 0x110001)
    run.set("rule", "named: all 2231 table names, with ';' and with it removed, x 13 followers x 6 contexts x {tokenizer, parseFragment}; "
            "numeric: every value 0..0x110000 x 6 spellings in data state%s, plus overflow/leading-zero/edge forms in all contexts; reverse: "
            "code points as text and attribute value serialized with an output encoding and parsed back (%s); distinct_nontrivial = "
            "distinct named inputs + distinct numeric values" % (
                "" if not quick else " (attribute/RCDATA contexts and parser route on a stated partition: every 256th value, 0-0x2FF, 0xD700-0xE0FF, 0xFDC0-0xFE0F, first/last 16 of every plane)",
                "all code points to U+2FFFF + 64 per 4096 above, ascii; 0-0x2FFF for latin-1/koi8-r/utf-8" if quick else "every code point, ascii; whole BMP for 4 more encodings"))
    run.set("exhaustive", not quick)
    run.assumptions.append("NUL and CR are excluded from the reverse direction (the parser's input preprocessing changes them regardless of references)")
    return run.finish("exploration")
