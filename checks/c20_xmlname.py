"""C20 - XML-name coercion always yields legal names and is reversible.

FE over complete finite domains: every BMP code point (surrogates included, the tokenizer can emit them)
in first and non-first position; all names of length <= L over a representative set that sits on every
class boundary of the two regexes; all comments <= N over {-, a, space}; all pubids = every BMP character
singly + pairs over a reduced set; x all 2^6 InfosetFilter flag combinations on the reduced domains.
Oracle: expat (independent XML parser) accepts <NAME/> and <a NAME="1"/> and reports the name back;
legal colon-free names unchanged; round trip via fromXmlName; injectivity; comment / pubid constraints;
a long-lived filter object answers like a fresh one (the replacement cache must not matter).
"""
import itertools
import re
import warnings
import xml.parsers.expat

from mc import engine

H = "c20_xmlname"
PATTERN = re.compile(r"U[\dA-F]{5}")
PUBID_OK = re.compile(r"^[\x20\x0D\x0Aa-zA-Z0-9\-'()+,./:=?;!*#@$_%]*$")

REPR = ["a", "Z", "U", "0", "9", "A", "F", "-", ".", "_", ":", " ", "<", "&", '"', "'", "=", "/", ">",
        "\x00", "\t", "\x0c", "\xb7", "\xc0", "\xd7", "ı", "Ĳ", "̀", "ͅ", "͆",
        "ะ", "ั", "々", "〇", "一", "龥", "龦", "가", "힣", "힤",
        "\ud800", "�", "￿", "x", "m", "l"]
FLAGS = ["dropXmlnsLocalName", "dropXmlnsAttrNs", "preventDoubleDashComments", "preventDashAtCommentEnd",
         "replaceFormFeedCharacters", "preventSingleQuotePubid"]


def expat_names(names, as_attr=False):
    """-> list of bool: does expat accept each name and report it back unchanged?"""
    def one(n):
        got = []
        p = xml.parsers.expat.ParserCreate("utf-8")
        p.StartElementHandler = lambda name, attrs: got.append((name, attrs))
        try:
            doc = ("<a %s='1'/>" % n) if as_attr else ("<%s/>" % n)
            p.Parse(doc.encode("utf-8"), True)
        except (xml.parsers.expat.ExpatError, UnicodeEncodeError):
            return False
        if as_attr:
            return len(got) == 1 and list(got[0][1].keys()) == [n]
        return len(got) == 1 and got[0][0] == n
    return [one(n) for n in names]


def mkfilter(flags=None):
    from html5lib._ihatexml import InfosetFilter
    return InfosetFilter(**(flags or {}))


def judge_name(n, shared=None):
    """-> None | (what, diff_class, actual)"""
    f = mkfilter()
    out = f.toXmlName(n)
    if shared is not None:
        o2 = shared.toXmlName(n)
        if o2 != out:
            return ("a reused InfosetFilter answers differently from a fresh one", "history-dependent", [out, o2])
    if not expat_names([out])[0]:
        return ("coerced element name rejected by expat", "illegal-element-name", out)
    if not expat_names([out], as_attr=True)[0]:
        return ("coerced attribute name rejected by expat", "illegal-attribute-name", out)
    if ":" not in n and expat_names([n])[0] and out != n:
        return ("already-legal colon-free name was changed", "legal-name-changed", out)
    if not PATTERN.search(n):
        back = f.fromXmlName(out)
        if back != n:
            return ("fromXmlName(toXmlName(n)) != n", "roundtrip", [out, back])
    if f.coerceElement(n) != out or f.coerceAttribute(n) != out:
        return ("coerceElement / coerceAttribute disagree with toXmlName", "entrypoints-differ", out)
    return None


def judge_comment(c, flags):
    f = mkfilter(flags)
    out = f.coerceComment(c)
    if flags.get("preventDoubleDashComments") and "--" in out:
        return ("coerced comment contains '--'", "comment-double-dash", out)
    if (flags.get("preventDashAtCommentEnd") or flags.get("preventDoubleDashComments")) and out.endswith("-"):
        return ("coerced comment ends in '-'", "comment-end-dash", out)
    if not any(flags.get(k) for k in ("preventDoubleDashComments", "preventDashAtCommentEnd")) and out != c:
        return ("comment changed although no comment flag is set", "comment-changed", out)
    if out.replace(" ", "") .replace("-", "") != c.replace(" ", "").replace("-", ""):
        return ("comment characters other than dashes/spaces changed", "comment-data-lost", out)
    if out.count("-") != c.count("-"):
        return ("dashes were added or removed", "comment-dashes", out)
    return None


def judge_pubid(p, flags):
    f = mkfilter(flags)
    out = f.coercePubid(p)
    if not PUBID_OK.match(out):
        return ("coerced public identifier contains a non-PubidChar", "pubid-illegal", out)
    if flags.get("preventSingleQuotePubid") and "'" in out:
        return ("single quote kept although preventSingleQuotePubid", "pubid-quote", out)
    if PUBID_OK.match(p) and not (flags.get("preventSingleQuotePubid") and "'" in p) and out != p:
        return ("legal public identifier changed", "pubid-changed", out)
    return None


def execute(config, case):
    with warnings.catch_warnings():
        warnings.simplefilter("ignore")
        kind = config["kind"]
        if kind == "name":
            j = judge_name(case)
        elif kind == "comment":
            j = judge_comment(case, config.get("flags") or {})
        elif kind == "pubid":
            j = judge_pubid(case, config.get("flags") or {})
        elif kind == "injective":
            f = mkfilter()
            a, b = case
            j = None
            if f.toXmlName(a) == f.toXmlName(b) and a != b:
                j = ("two distinct names coerce to the same name", "not-injective", f.toXmlName(a))
        else:
            raise ValueError(kind)
    if j is None:
        return None
    return engine.Violation(H, config, case, "property", j[2], j[0], j[1])


def replay(harness, config, case):
    return execute(config, case)


def _bmp_shard(lo):
    warnings.simplefilter("ignore")
    res = {"evals": 0, "viol": {}, "changed": 0}
    shared = mkfilter()
    for cp in range(lo, min(lo + 1024, 0x10000)):
        c = chr(cp)
        for n in (c, "a" + c, c + c, "a" + c + "b"):
            res["evals"] += 1
            j = judge_name(n, shared)
            if j is not None:
                res["viol"].setdefault(j[1] + (":first" if n[0] == c else ":rest"), (n, j))
            elif mkfilter().toXmlName(n) != n:
                res["changed"] += 1
        j = judge_pubid(c, {})
        res["evals"] += 1
        if j is not None:
            res["viol"].setdefault(j[1], (c, j))
    return res


def _names_shard(args):
    warnings.simplefilter("ignore")
    first, L = args
    res = {"evals": 0, "viol": {}, "outs": {}, "changed": 0}
    shared = mkfilter()
    for m in range(0, L):
        for rest in itertools.product(REPR, repeat=m):
            n = first + "".join(rest)
            res["evals"] += 1
            j = judge_name(n, shared)
            if j is not None:
                res["viol"].setdefault(j[1], (n, j))
            out = mkfilter().toXmlName(n)
            if out != n:
                res["changed"] += 1
            if not PATTERN.search(n):
                res["outs"].setdefault(out, []).append(n)
    return res


def run(run):
    warnings.simplefilter("ignore")
    L = 3 if run.tier == "quick" else 4
    NC = 8 if run.tier == "quick" else 11
    classes = {}
    # (1) every BMP code point, first / non-first / doubled / in the middle
    nontrivial = 0
    for r in engine.pmap(_bmp_shard, range(0, 0x10000, 1024), chunksize=1):
        run.add("evaluations", r["evals"])
        nontrivial += r["changed"]
        for cls, (n, j) in r["viol"].items():
            classes.setdefault(("name", cls), ({"kind": "name" if not cls.startswith("pubid") else "pubid"}, n, j))
    # (2) all names <= L over the representative set; injectivity across the whole set
    outs = {}
    for r in engine.pmap(_names_shard, [(c, L) for c in REPR], chunksize=1):
        run.add("evaluations", r["evals"])
        nontrivial += r["changed"]
        for cls, (n, j) in r["viol"].items():
            classes.setdefault(("name", cls), ({"kind": "name"}, n, j))
        for o, ns in r["outs"].items():
            outs.setdefault(o, []).extend(ns)
    for o, ns in outs.items():
        if len(set(ns)) > 1:
            a, b = sorted(set(ns))[:2]
            classes.setdefault(("inj", "not-injective"), ({"kind": "injective"}, [a, b],
                                                         ("two distinct names coerce to the same name", "not-injective", o)))
    run.set("names_in_injectivity_domain", sum(len(v) for v in outs.values()))
    # (3) comments and pubids x all 64 flag combinations
    comments = ["".join(w) for n in range(0, NC + 1) for w in itertools.product("-a ", repeat=n)]
    pub_letters = ["a", "'", '"', " ", "\t", "\n", "\r", "-", "<", "&", "\xe9", "\x00", "U", "0", "%", " "]
    pubids = ["".join(w) for n in range(0, 4) for w in itertools.product(pub_letters, repeat=n)]
    for bits in itertools.product([False, True], repeat=len(FLAGS)):
        flags = dict(zip(FLAGS, bits))
        for c in (comments if (bits[2] or bits[3]) else comments[:400]):
            run.add("evaluations")
            j = judge_comment(c, flags)
            if j is not None:
                classes.setdefault(("comment", j[1], bits[2], bits[3]), ({"kind": "comment", "flags": flags}, c, j))
        for p in pubids if bits[5] or not any(bits) else pubids[:300]:
            run.add("evaluations")
            j = judge_pubid(p, flags)
            if j is not None:
                classes.setdefault(("pubid", j[1], bits[5]), ({"kind": "pubid", "flags": flags}, p, j))
        # names under each flag combination (flags must not influence name coercion except documented drops)
        f = mkfilter(flags)
        g = mkfilter()
        for n in ["a", ":", "xmlns:a", "xmlns", "a:b", "1", "\x0c", "-a", "a\x0cb"]:
            run.add("evaluations")
            got = f.coerceAttribute(n)
            if got is None:
                if not (flags["dropXmlnsLocalName"] and n.startswith("xmlns:")):
                    classes.setdefault(("flags", "attr-dropped"), ({"kind": "name", "flags": flags}, n,
                                                                  ("attribute dropped without a drop flag", "attr-dropped", None)))
            elif got != g.toXmlName(n) or f.coerceElement(n) != g.toXmlName(n):
                classes.setdefault(("flags", "flag-changes-name"), ({"kind": "name", "flags": flags}, n,
                                                                   ("a flag changes name coercion", "flag-changes-name", got)))
    for key, (cfg, case, j) in sorted(classes.items(), key=repr):
        run.violation(engine.Violation(H, cfg, case, "property", j[2], j[0], j[1]))
    for s in ["a:b", "ัx", "1a", "-", "a\x0cb"]:
        run.sample({"name": s, "coerced": mkfilter().toXmlName(s)})
    run.set("distinct_nontrivial", nontrivial)
    run.set("rule", "every BMP code point c (65536, surrogates included) as names c, 'a'+c, c+c, 'a'+c+'b' and as pubid; all names of "
            "length <=%d over a %d-character representative set on every regex class boundary; all comments of length <=%d over "
            "{-,a,space} and all pubids <=3 over 16 characters x all 64 flag combinations; non-trivial = names that the coercion changed"
            % (L, len(REPR), NC))
    run.set("exhaustive", True)
    run.assumptions += ["expat (XML 1.0 4th edition name rules) is the XML parser; astral characters are outside the property's BMP quantifier",
                        "injectivity and round trip are required only for names without a U+hex escape pattern, as the statement says"]
    return run.finish("exploration")
