"""C01 - tree construction follows the WHATWG algorithm for every input.

PB: product BFS of the real HTMLParser (tokenizer + tree construction) x ref/treebuilder.py over the markup
themes T1-T7 and their union, in document mode with scripting off/on and in fragment mode for the HTML
context elements.  State key = (suspended implementation state: insertion mode, closed-subtree skeleton,
stacks, pointers, flags, pending table text, tokenizer snapshot) + (the same for the reference).
Oracle: canonical(html5lib tree) == canonical(reference tree) for word + EOF at every transition; html5lib's
tree is read by direct traversal of the minidom result (and the etree result in a second pass).
"""
import os

from mc import engine, drive, trees
from checks import treewords as tw
from ref import treebuilder as rtb

H = "c01_tree"


def impl_tree(text, container, scripting, builder="dom"):
    import html5lib
    if builder == "dom":
        return tw.parse_dom(text, container, scripting=scripting)
    return tw.parse_etree(text, container, scripting=scripting, full=True)


def ref_tree(text, container, scripting):
    return rtb.parse(text, scripting=scripting, context=container)


def judge(text, container, scripting):
    exp = ref_tree(text, container, scripting)
    try:
        got = impl_tree(text, container, scripting)
    except Exception as e:
        return ("html5lib raised %s: %s" % (type(e).__name__, str(e)[:80]), "raised:" + type(e).__name__, exp, None)
    if got != exp:
        combo = rtb.classify(text, got, scripting, container)
        if combo is not None:
            return ("tree differs from the WHATWG algorithm's (explained by modelled deviation %s)" % "+".join(combo),
                    "deviation:" + "+".join(combo), exp, got)
        return ("tree differs from the WHATWG algorithm's", classify(exp, got), exp, got)
    return None


def classify(exp, got):
    from checks.c07_roundtrip import diff_path
    return diff_path(exp, got)


def step(ctx, word):
    theme, container, scripting = ctx
    text = tw.text_of(theme, word)
    j = judge(text, container, scripting)
    v = None
    if j is not None:
        v = engine.Violation(H, {"theme": theme, "container": container, "scripting": scripting}, text, j[2], j[3], j[0], j[1])
    try:
        p, snap = drive.suspended_parse(text, builder="dom", container=container, scripting=scripting)
        ikey = drive.parser_key(p, snap)
    except Exception as e:
        ikey = ("crash", text)
    rkey = rtb.suspended(text, scripting=scripting, context=container)
    obs = engine.digest(j[3] if j is not None else None) if j else "ok"
    return ((ikey, rkey), engine.digest(ref_tree(text, container, scripting)), v)


# -- DOCTYPE part: every quirks-mode rule of the "initial" insertion mode, flat exhaustive ------------------------
# The mode is observed through the tree (quirks mode keeps <p> open at <table>) and through parser.compatMode.

def doctype_cases():
    pubs = [None, "", "-//W3C//DTD HTML 4.01//EN", "-//W3C//DTD XHTML 1.0 Strict//EN", "-//W3C//DTD XHTML 1.1//EN"]
    exact = ["-//W3O//DTD W3 HTML Strict 3.0//EN//", "-/W3C/DTD HTML 4.0 Transitional/EN", "HTML"]
    limited = ["-//W3C//DTD XHTML 1.0 Frameset//", "-//W3C//DTD XHTML 1.0 Transitional//",
               "-//W3C//DTD HTML 4.01 Frameset//", "-//W3C//DTD HTML 4.01 Transitional//"]
    for e in exact:
        pubs += [e, e.lower(), e + "x", e[:-1]]
    for pre in rtb.QUIRKS_PUBLIC_PREFIXES + [l.lower() for l in limited]:
        pubs += [pre + "en", pre.upper() + "EN", pre[:-1]]
    ibm = "http://www.ibm.com/data/dtd/v11/ibmxhtml1-transitional.dtd"
    syss = [None, "", "x", ibm, ibm.upper(), ibm + "x", "about:legacy-compat"]
    out = []
    for name in ("html", "HTML", "htm", ""):
        for pub in pubs:
            for sysid in syss:
                t = "<!DOCTYPE" + (" " + name if name else "")
                q = "'" if (pub and '"' in pub) else '"'
                if pub is not None:
                    t += " PUBLIC %s%s%s" % (q, pub, q)
                    if sysid is not None:
                        t += ' "%s"' % sysid
                elif sysid is not None:
                    t += ' SYSTEM "%s"' % sysid
                out.append(t + "><p>a<table>")
    return out


def _doctype_shard(texts):
    import html5lib
    out = []
    modes = {}
    for text in texts:
        j = judge(text, None, False)
        v = None
        if j is not None:
            v = engine.Violation(H, {"theme": "DOCTYPE", "container": None, "scripting": False}, text, j[2], j[3], j[0], j[1])
        else:
            # the recorded compatibility mode itself (also visible to callers as parser.compatMode)
            tb = rtb.TreeBuilder(text, scripting=False)
            tb.run()
            p = html5lib.HTMLParser(tree=tw.builder("dom"))
            p.parse(text)
            exp = {"quirks": "quirks", "limited-quirks": "limited quirks", "no-quirks": "no quirks"}[tb.quirks]
            modes[exp] = modes.get(exp, 0) + 1
            if p.compatMode != exp:
                v = engine.Violation(H, {"theme": "DOCTYPE", "container": None, "scripting": False}, text, exp, p.compatMode,
                                     "compatMode differs from the WHATWG quirks-mode rules", "compatMode:%s->%s" % (exp, p.compatMode))
        out.append(v)
    return out, modes


def _names_shard(cases):
    out = []
    for text, cont, scr in cases:
        j = judge(text, cont, scr)
        out.append(None if j is None else engine.Violation(H, {"theme": "NAMES", "container": cont, "scripting": scr}, text, j[2], j[3], j[0], j[1]))
    return out


# -- <template>: fixed witnesses -----------------------------------------------------------------------------------
# The reference model has no "in template" insertion mode (section 9 of DESIGN.md), so template handling is not
# explored; these hand-derived trees (template contents shown as children of the template element, as in the
# html5lib-tests dump format minus the "content" line) record that html5lib 1.1 does not implement the element.

def _e(name, *kids):
    return ("elem", HTML_NS, name, (), tuple(kids))


HTML_NS = "http://www.w3.org/1999/xhtml"
TEMPLATE_WITNESSES = [
    ("<head><template></template><title>x</title>",
     (_e("html", _e("head", _e("template"), _e("title", ("text", "x"))), _e("body")),)),
    ("<table><template><td>x</td></template></table>",
     (_e("html", _e("head"), _e("body", _e("table", _e("template", _e("td", ("text", "x")))))),)),
    ("<template><tr><td>x",
     (_e("html", _e("head", _e("template", _e("tr", _e("td", ("text", "x"))))), _e("body")),)),
]


def judge_template(text):
    exp = dict(TEMPLATE_WITNESSES)[text]
    got = impl_tree(text, None, False)
    if got != exp:
        return ("<template> is not handled as the standard prescribes (no 'in template' insertion mode, no template contents)",
                "witness:template-not-implemented", exp, got)
    return None


def execute(config, case):
    if config.get("theme") == "TEMPLATE":
        j = judge_template(case)
        return None if j is None else engine.Violation(H, config, case, j[2], j[3], j[0], j[1])
    j = judge(case, config.get("container"), config.get("scripting", False))
    if j is None:
        return None
    return engine.Violation(H, config, case, j[2], j[3], j[0], j[1])


def replay(harness, config, case):
    v = execute(config, case)
    if v is not None:
        print("expected (WHATWG):\n" + trees.pretty(v.expected))
        print("html5lib:\n" + (trees.pretty(v.actual) if v.actual is not None else "raised"))
    return v


def run(run):
    quick = run.tier == "quick"
    depth = {"T1": 4, "T2": 4, "T3": 4, "T4": 4, "T5": 3, "T6": 4, "T7": 4, "T8": 3, "TU": 2} if quick else \
            {"T1": 5, "T2": 5, "T3": 5, "T4": 5, "T5": 4, "T6": 5, "T7": 5, "T8": 4, "TU": 3}
    only = os.environ.get("VERIF_THEMES")
    classes = {}
    tot_s = tot_t = bc = bf = 0
    obs = set()
    per = {}
    frag = {"T1": ["div", "td", "p", "a"], "T2": ["table", "tbody", "tr", "td", "caption", "colgroup", "select"], "T3": ["select", "table", "div"],
            "T4": ["html", "head", "body", "frameset", "noscript", "div"], "T5": [], "T6": ["p", "div", "textarea"],
            "T7": ["title", "textarea", "script", "style", "xmp", "plaintext", "div", "noscript"], "T8": ["div", "p"],
            "TU": [c for c in tw.CTX]}
    for theme, d in depth.items():
        if only and theme not in only.split(","):
            continue
        cfgs = [(None, False), (None, True)] + [(c, False) for c in frag[theme]]
        for container, scripting in cfgs:
            dd = d if container is None else max(2, d - 1)
            th = theme + "F" if (theme in ("TU", "T8") and container is not None) else theme
            res = engine.product_bfs(step, len(tw.THEMES[th]), dd, bisim_depth=max(0, dd - 2), ctx=(th, container, scripting))
            if container is None and not scripting and tw.seed_words(th):
                # deep states reached by fixed prefixes, explored one level less deep
                res2 = engine.product_bfs(step, len(tw.THEMES[th]), max(2, dd - 1), ctx=(th, container, scripting),
                                          init_words=tw.seed_words(th))
                res.states += res2.states
                res.transitions += res2.transitions
                res.obs |= res2.obs
                res.violations += res2.violations
            tot_s += res.states
            tot_t += res.transitions
            bc += res.bisim_checks
            bf += res.bisim_failures
            obs |= res.obs
            per["%s/%s%s" % (theme, container or "document", "/scripting" if scripting else "")] = {
                "states": res.states, "transitions": res.transitions, "depth": dd}
            for pw, rep in res.bisim_examples:
                run.notes.append("abstraction_unsound: %s/%s pruned=%r representative=%r" % (theme, container, tw.text_of(theme, pw), tw.text_of(theme, rep)))
            for v in res.violations:
                k = v.diff_class
                if k not in classes or len(v.case) < len(classes[k].case):
                    classes[k] = v
        run.sample({"theme": theme, "text": tw.text_of(theme, tuple(range(2, 2 + d)))})
    if not only or "DOCTYPE" in only.split(","):
        cases = doctype_cases()
        n = 0
        modes = {}
        shards = [cases[i:i + 200] for i in range(0, len(cases), 200)]
        for vs, md in engine.pmap(_doctype_shard, shards, chunksize=1):
            for k, c in md.items():
                modes[k] = modes.get(k, 0) + c
            for v in vs:
                n += 1
                if v is not None and (v.diff_class not in classes or len(v.case) < len(classes[v.diff_class].case)):
                    classes[v.diff_class] = v
        tot_t += n
        per["DOCTYPE/document"] = {"cases": n, "modes_expected": modes}
        run.sample({"theme": "DOCTYPE", "text": cases[len(cases) // 2]})
    if not only or "NAMES" in only.split(","):
        cases = tw.name_cases()
        n = 0
        for vs in engine.pmap(_names_shard, [cases[i:i + 400] for i in range(0, len(cases), 400)], chunksize=1):
            for v in vs:
                n += 1
                if v is not None and (v.diff_class not in classes or len(v.case) < len(classes[v.diff_class].case)):
                    classes[v.diff_class] = v
        tot_t += n
        per["NAMES"] = {"cases": n, "names": len(tw.ALL_NAMES), "templates": len(tw.NAME_TEMPLATES)}
        run.sample({"theme": "NAMES", "text": cases[len(cases) // 3][0]})
    if not only or "TEMPLATE" in only.split(","):
        for text, _ in TEMPLATE_WITNESSES:
            j = judge_template(text)
            tot_t += 1
            if j is not None and j[1] not in classes:
                classes[j[1]] = engine.Violation(H, {"theme": "TEMPLATE", "container": None, "scripting": False}, text, j[2], j[3], j[0], j[1])
        per["TEMPLATE/witnesses"] = {"cases": len(TEMPLATE_WITNESSES)}
    for v in classes.values():
        run.violation(v)
    run.set("states", tot_s)
    run.set("transitions", tot_t)
    run.set("traces_validated_against_impl", tot_t)
    run.set("distinct_observations", len(obs))
    run.set("bisimulation_checks", bc)
    run.set("abstraction_unsound", bf)
    run.set("themes", per)
    run.set("exhaustive", True)
    return run.finish("model_checking")
