"""Shared alphabets (DESIGN section 4)."""
from collections import OrderedDict

HTML_NS = "http://www.w3.org/1999/xhtml"
SVG_NS = "http://www.w3.org/2000/svg"
MATHML_NS = "http://www.w3.org/1998/Math/MathML"

OMISSIBLE = "html head body li dt dd p rt rp optgroup option colgroup thead tbody tfoot tr td th".split()
HTML_SUBSTRINGS = ["h", "t", "m", "l", "ht", "tm", "ml", "htm", "tml"]


def st(name, attrs=None, ns=HTML_NS):
    return {"type": "StartTag", "name": name, "namespace": ns, "data": OrderedDict(attrs or {})}


def et(name, ns=HTML_NS):
    return {"type": "EndTag", "name": name, "namespace": ns}


def empty(name, attrs=None, ns=HTML_NS):
    return {"type": "EmptyTag", "name": name, "namespace": ns, "data": OrderedDict(attrs or {})}


def chars(s):
    return {"type": "Characters", "data": s}


def space(s):
    return {"type": "SpaceCharacters", "data": s}


def comment(s="c"):
    return {"type": "Comment", "data": s}


def doctype():
    return {"type": "Doctype", "name": "html", "publicId": None, "systemId": None}


def stream_alphabet(tier="quick"):
    """STREAM: walker tokens for the filter checks (C13)."""
    A = []
    for n in OMISSIBLE:
        A.append(st(n))
        A.append(et(n))
    for n in OMISSIBLE:
        A.append(st(n, {(None, "a"): "1"}))
    for n in HTML_SUBSTRINGS:
        A.append(st(n))
        A.append(et(n))
    other = ["div", "span", "a", "pre", "script", "style", "template", "table", "caption", "dialog", "datagrid",
             "dir", "details", "ul", "h1", "address", "noscript", "unknownx", "x-y", "hr"]
    for n in other:
        A.append(st(n))
        A.append(et(n))
    # foreign elements: every name the filter's rules look for in a neighbour also exists as an SVG element here (a
    # foreign neighbour must never satisfy a rule about an HTML element)
    for n in ["svg", "foreignObject"] + list(OMISSIBLE):
        A.append(st(n, ns=SVG_NS))
        A.append(et(n, ns=SVG_NS))
    for n in ("col", "meta", "link", "script", "div"):
        A.append(empty(n, ns=SVG_NS) if n in ("col", "meta", "link") else st(n, ns=SVG_NS))
    for n in ("br", "col", "meta", "link", "hr", "input"):
        A.append(empty(n))
    A += [chars("x"), chars("x y"), space(" "), space("\n\t"), comment(), doctype()]
    return A
