"""C11 - tree walkers emit a well-formed stream that reproduces the tree.  (Also hosts the SAX oracle of C19.)

Exploration: BFS over markup-letter themes; key = (suspended parser state, digest of the complete final
tree), so two words are merged only when they lead to the same tree AND the same parser state (walkers
look at whole trees, closed subtrees included).  For every explored word the final trees are built with
etree (full tree, root element, fragment) and dom (document, documentElement, fragment), namespacing
on/off, and walked with the matching walker from each starting node.
Oracle: (i) lint.Filter accepts; (ii) own checker (balance, void elements, names, text splitting);
(iii) tree rebuilt from the stream == direct traversal of the walked node; (iv) etree stream == dom stream
after concatenating adjacent character tokens.
"""
import os

from mc import engine, drive, trees
from checks import treewords as tw

H = "c11_walkers"
WS = "\t\n\x0c\r "
VOID = frozenset("area base br col embed hr img input link meta param source track wbr".split())    # the standard's void elements
LEGACY_VOID = frozenset(["command", "event-source"])     # obsolete names html5lib also treats as void: either form accepted
HTML = trees.HTML_NS


def build_all(text, container, ns):
    """-> dict start-kind -> (walker name, node, canonical tree of that node (tuple of nodes))"""
    import html5lib
    out = {}
    pd = html5lib.HTMLParser(tw.builder("dom"), namespaceHTMLElements=ns)
    pe = html5lib.HTMLParser(tw.builder("etree", fullTree=True), namespaceHTMLElements=ns)
    if container is None:
        d = pd.parse(text)
        out["dom:document"] = ("dom", d, trees.canon_dom(d))
        out["dom:root"] = ("dom", d.documentElement, (trees.canon_dom(d.documentElement),))
        e = pe.parse(text)
        out["etree:document"] = ("etree", e, trees.canon_etree(e))
        root = [c for c in e if isinstance(c.tag, str) and c.tag.split("}")[-1] == "html"][0]
        out["etree:root"] = ("etree", root, (trees.canon_etree(root),))
    else:
        d = pd.parseFragment(text, container=container)
        out["dom:fragment"] = ("dom", d, trees.canon_dom(d))
        e = pe.parseFragment(text, container=container)
        out["etree:fragment"] = ("etree", e, trees.canon_etree(e))
    return out


def walk(walker, node):
    from html5lib import treewalkers
    return list(treewalkers.getTreeWalker(walker)(node))


def check_stream(tokens):
    """own well-formedness checker -> None | problem"""
    stack = []
    for t in tokens:
        ty = t.get("type")
        if ty in ("StartTag", "EmptyTag", "EndTag"):
            name, ns = t.get("name"), t.get("namespace")
            if not isinstance(name, str) or name == "":
                return "empty or non-text element name"
            is_void = (not ns or ns == HTML) and name in VOID
            if ty == "EndTag":
                if is_void:
                    return "void element <%s> as EndTag" % name
                if not stack or stack[-1] != (ns, name):
                    return "EndTag </%s> does not match the open element" % name
                stack.pop()
            else:
                if is_void and ty != "EmptyTag":
                    return "void element <%s> as StartTag" % name
                if not is_void and ty != "StartTag" and not ((not ns or ns == HTML) and name in LEGACY_VOID):
                    return "non-void element <%s> as EmptyTag" % name
                if ty == "StartTag":
                    stack.append((ns, name))
                for k, v in t["data"].items():
                    if not (isinstance(k, tuple) and len(k) == 2 and isinstance(k[1], str) and k[1] != ""):
                        return "bad attribute name %r" % (k,)
                    if not isinstance(v, str):
                        return "non-text attribute value"
        elif ty == "Characters":
            d = t["data"]
            if d == "" or d[0] in WS or d[-1] in WS:
                return "Characters token %r is empty or has leading/trailing whitespace" % d
        elif ty == "SpaceCharacters":
            d = t["data"]
            if d == "" or d.strip(WS) != "":
                return "SpaceCharacters token %r is empty or not whitespace" % d
        elif ty in ("Comment", "Doctype", "Entity"):
            pass
        else:
            return "token of type %r" % ty
    if stack:
        return "unclosed elements at end of stream: %r" % (stack[-1],)
    return None


def rebuild(tokens):
    """token stream -> canonical tree (tuple of nodes)"""
    root = []
    stack = [root]
    for t in tokens:
        ty = t["type"]
        if ty in ("StartTag", "EmptyTag"):
            kids = []
            node = ["elem", t["namespace"], t["name"], tuple((k, v) for k, v in t["data"].items()), kids]
            stack[-1].append(node)
            if ty == "StartTag":
                stack.append(kids)
        elif ty == "EndTag":
            stack.pop()
        elif ty in ("Characters", "SpaceCharacters"):
            stack[-1].append(("text", t["data"]))
        elif ty == "Comment":
            stack[-1].append(("comment", t["data"]))
        elif ty == "Doctype":
            stack[-1].append(("doctype", t["name"] or "", t["publicId"] or "", t["systemId"] or ""))

    def freeze(nodes):
        out = []
        for n in nodes:
            if isinstance(n, list):
                out.append(("elem", n[1], n[2], n[3], freeze(n[4])))
            else:
                out.append(n)
        return trees._merge(out)
    return freeze(root)


def concat_stream(tokens):
    out = []
    for t in tokens:
        if t["type"] in ("Characters", "SpaceCharacters"):
            if out and out[-1][0] == "text":
                out[-1] = ("text", out[-1][1] + t["data"])
            else:
                out.append(("text", t["data"]))
        elif t["type"] in ("StartTag", "EmptyTag"):
            out.append((t["type"], t["namespace"], t["name"], tuple(sorted(t["data"].items(), key=repr))))
        elif t["type"] == "EndTag":
            out.append(("EndTag", t["namespace"], t["name"]))
        elif t["type"] == "Doctype":
            out.append(("Doctype", t["name"], t["publicId"], t["systemId"]))
        else:
            out.append((t["type"], t.get("data")))
    return out


def judge(text, container):
    """-> None | (what, diff_class, expected, actual)"""
    from html5lib.filters import lint
    for ns in (True, False):
        built = build_all(text, container, ns)
        streams = {}
        for kind, (walker, node, canon) in built.items():
            try:
                toks = walk(walker, node)
            except Exception as e:
                return ("%s walker raised %s: %s" % (kind, type(e).__name__, str(e)[:80]), "%s:raised" % kind, None, None)
            streams[kind] = toks
            try:
                list(lint.Filter(toks))
            except AssertionError as e:
                return ("lint rejects the %s stream: %s" % (kind, str(e)[:80]), "%s:lint" % kind, None, jsonable_stream(toks))
            p = check_stream(toks)
            if p:
                return ("%s stream: %s" % (kind, p), "%s:wellformed" % kind, None, jsonable_stream(toks))
            rb = rebuild(toks)
            if trees.sort_attrs(rb) != trees.sort_attrs(canon):
                return ("tree rebuilt from the %s stream differs from the walked tree" % kind, "%s:rebuild" % kind,
                        trees.sort_attrs(canon), trees.sort_attrs(rb))
        for a, b in (("etree:document", "dom:document"), ("etree:root", "dom:root"), ("etree:fragment", "dom:fragment")):
            if a in streams and concat_stream(streams[a]) != concat_stream(streams[b]):
                return ("%s and %s streams differ (ns=%s)" % (a, b, ns), "etree-vs-dom:%s" % a.split(":")[1],
                        concat_stream(streams[b]), concat_stream(streams[a]))
    return None


def jsonable_stream(toks):
    out = []
    for t in toks:
        t = dict(t)
        if isinstance(t.get("data"), dict):
            t["data"] = [[list(k), v] for k, v in t["data"].items()]
        out.append(t)
    return out


def step(ctx, word, judge_fn=None):
    theme, container = ctx
    text = tw.text_of(theme, word)
    j = (judge_fn or judge)(text, container)
    v = None
    if j is not None:
        v = engine.Violation(H, {"theme": theme, "container": container}, text, j[2], j[3], j[0], j[1])
    try:
        p, snap = drive.suspended_parse(text, builder="dom", container=container)
        final = tw.parse_dom(text, container)
        key = (drive.parser_key(p, snap), engine.digest(final))
        obs = engine.digest(final)
    except Exception as e:
        key, obs = ("crash", text), "crash"
    return (key, obs, v)


def execute(config, case):
    j = judge(case, config.get("container"))
    if j is None:
        return None
    return engine.Violation(H, config, case, j[2], j[3], j[0], j[1])


def replay(harness, config, case):
    return execute(config, case)


def explore(run, step_fn, quick):
    depth = {"T1": 4, "T2": 3, "T3": 3, "T4": 4, "T5": 3, "T6": 3, "T7": 3, "TU": 2} if quick else \
            {"T1": 5, "T2": 4, "T3": 4, "T4": 4, "T5": 4, "T6": 4, "T7": 4, "TU": 3}
    frag = {"T1": ["div"], "T2": ["table"], "T3": ["select"], "T4": ["html"], "T5": ["div"], "T6": ["p"], "T7": ["title"], "TU": ["div"]}
    classes = {}
    tot_s = tot_t = 0
    obs = set()
    only = os.environ.get("VERIF_THEMES")
    for theme, d in depth.items():
        if only and theme not in only.split(","):
            continue
        for container in [None] + frag[theme]:
            dd = d if container is None else max(2, d - 1)
            res = engine.product_bfs(step_fn, len(tw.THEMES[theme]), dd, ctx=(theme, container))
            tot_s += res.states
            tot_t += res.transitions
            obs |= res.obs
            for v in res.violations:
                if v.diff_class not in classes or len(v.case) < len(classes[v.diff_class].case):
                    classes[v.diff_class] = v
        run.sample({"theme": theme, "text": tw.text_of(theme, tuple(range(1, 1 + d)))})
    for v in classes.values():
        run.violation(v)
    run.set("states", tot_s)
    run.set("transitions", tot_t)
    run.set("traces_validated_against_impl", tot_t)
    run.set("distinct_trees", len(obs))
    run.set("exhaustive", True)


WITNESSES = ["<p {x}y=1>", "<svg {a}b=1 xlink:href=c>", "<a:b c:d=1 xml:lang=e>x</a:b>", "<p a=1 A=2 b=3>", "<{x}y>z"]


def char_texts(cp):
    c = chr(cp)
    return ["<p>a%s</p>" % c, "<p>%s%sa</p><p>%s</p><p>a%s </p>" % (c, c, c, c)]


def _char_shard(args):
    lo, hi = args
    n, viol = 0, {}
    for cp in range(lo, hi):
        if 0xD800 <= cp <= 0xDFFF or cp in (0, 0x0D, 0x26, 0x3C):      # (NUL and CR are rewritten by the input stream; & and < are markup)
            continue
        for text in char_texts(cp):
            n += 1
            j = judge(text, "div")
            if j is not None and ("chars:" + j[1]) not in viol:
                viol["chars:" + j[1]] = engine.Violation(H, {"theme": "chars", "container": "div"}, text, j[2], j[3], j[0] + " (U+%04X)" % cp, "chars:" + j[1])
    return n, viol


def run(run):
    explore(run, step, run.tier == "quick")
    # character sweep: how text is split into SpaceCharacters / Characters tokens is decided per character
    top = 0x3100 if run.tier == "quick" else 0x10000
    shards = [(lo, min(lo + 512, top)) for lo in range(0, top, 512)] + [(0xFEFF, 0xFF00), (0xFFF0, 0x10000), (0x1F600, 0x1F601), (0xE0020, 0xE0021)]
    nchar = 0
    for n, viol in engine.pmap(_char_shard, shards, chunksize=1):
        nchar += n
        for cls, v in viol.items():
            run.violation(v)
    run.set("character_sweep_texts", nchar)
    for w in WITNESSES:      # names with braces / colons, kept out of the themes (DESIGN section 9)
        for container in (None, "div"):
            run.add("witness_words")
            j = judge(w, container)
            if j is not None:
                run.violation(engine.Violation(H, {"theme": "witness", "container": container}, w, j[2], j[3], j[0], j[1]))
    run.set("walks_per_word", 12)
    return run.finish("model_checking")
