"""C16 - strict mode raises ParseError exactly when a parse error exists.

PB: BFS over the tokenizer character alphabets (as whole-document and fragment parses, so every prefix =
every truncation at EOF is visited) and over the tree themes; state key = suspended parser state.
Oracle on every execution:
  non-strict errors non-empty  <=>  strict run raises html5parser.ParseError (and nothing else);
  the raised message is E[code] % datavars of the first recorded error;
  every recorded error has a code in constants.E whose template formats with its datavars, and a position
  1 <= line <= #lines, 0 <= col <= len(line);
  conforming documents (a fixed generator-independent list + generated ones in C07's space) record none.
"""
import os

from mc import engine, drive
from checks import treewords as tw
from checks import c02_tokenizer as c02

H = "c16_strict"

CONFORMING = [
    "<!DOCTYPE html><html><head><title>t</title></head><body><p>x</p></body></html>",
    "<!DOCTYPE html><title>t</title><p>x",
    "<!DOCTYPE html>\n<html lang=en>\n<head>\n<meta charset=utf-8>\n<title>t</title>\n</head>\n<body>\n<h1>a &amp; b</h1>\n<ul><li>1<li>2</ul>\n</body>\n</html>\n",
    "<!DOCTYPE html><title>t</title><table><caption>c<colgroup><col><thead><tr><th>h<tbody><tr><td>d<tfoot><tr><td>f</table>",
    "<!DOCTYPE html><title>t</title><select><optgroup label=a><option>1<option>2</select>",
    "<!DOCTYPE html><title>t</title><p>a<b>b<i>c</i></b><br><img src=x alt=y><!-- c --><pre>\nx</pre><textarea>\n</textarea>",
    "<!DOCTYPE html><title>t</title><svg><circle r=1 /><foreignObject><p>x</p></foreignObject></svg><math><mi>x</mi></math>",
    "<!DOCTYPE html><title>t</title><script>if (a < b && c) { x = '</' + 'p>'; }</script><style>p > a { }</style>",
    "<!DOCTYPE html><title>t</title><dl><dt>a<dd>b</dl><ruby>x<rp>(<rt>y<rp>)</ruby>",
    "<!DOCTYPE html><html><head><title>t</title></head><frameset><frame></frameset></html>",
    "<!doctype HTML><title>t</title><p a=1 b='2' c=\"3\" d>x&lt;&#65;&#x41;",
    "<!DOCTYPE html SYSTEM \"about:legacy-compat\"><title>t</title>",
]


# Void elements written with and without the trailing solidus, each in a place where the content model allows
# it (so every generated document is conforming): {context: (template, {element: conforming attribute text})}
VOID_CONTEXTS = {
    "head": ("<!DOCTYPE html><html><head><title>t</title>%s</head><body><p>x</p></body></html>",
             {"base": 'href="x"', "link": 'rel="stylesheet" href="x"', "meta": 'name="a" content="b"'}),
    "flow": ("<!DOCTYPE html><title>t</title><div>%s</div>",
             {"br": "", "hr": "", "wbr": "", "img": 'src="x" alt="y"', "input": 'type="text"', "embed": 'src="x"'}),
    "map": ("<!DOCTYPE html><title>t</title><map name=m>%s</map>", {"area": 'shape="default" href="x" alt="y"'}),
    "colgroup": ("<!DOCTYPE html><title>t</title><table><colgroup>%s</colgroup><tr><td>x</table>", {"col": "", "col ": 'span="2"'}),
    "object": ("<!DOCTYPE html><title>t</title><object data=x>%s</object>", {"param": 'name="a" value="b"'}),
    "video": ("<!DOCTYPE html><title>t</title><video controls>%s</video>",
              {"source": 'src="a.mp4" type="video/mp4"', "track": 'src="a.vtt" kind="subtitles" srclang="en" label="English"'}),
    "picture": ("<!DOCTYPE html><title>t</title><picture>%s<img src=x alt=y></picture>", {"source": 'srcset="a.png" media="print"'}),
    "svg": ("<!DOCTYPE html><title>t</title><svg>%s</svg>", {"circle": 'r="1"', "path": 'd="M0 0"', "g": ""}),
    "math": ("<!DOCTYPE html><title>t</title><math>%s</math>", {"mspace": 'width="1em"', "mi": ""}),
}


def void_documents():
    docs = []
    for ctx, (tpl, elems) in sorted(VOID_CONTEXTS.items()):
        letters = []
        for name, attrs in sorted(elems.items()):
            name = name.strip()
            a = (" " + attrs) if attrs else ""
            forms = ["<%s%s/>" % (name, a), "<%s%s />" % (name, a)]
            if ctx not in ("svg", "math"):
                forms.append("<%s%s>" % (name, a))       # (a foreign element without the solidus is not void)
            letters += forms
        for l1 in letters:
            docs.append(tpl % l1)
            for l2 in letters:
                docs.append(tpl % (l1 + l2))
    return docs


def nonstrict(text, container):
    import html5lib
    p = html5lib.HTMLParser(tw.builder("etree"), strict=False)
    if container is None:
        p.parse(text)
    else:
        p.parseFragment(text, container=container)
    return list(p.errors)


def strict(text, container):
    import html5lib
    from html5lib import html5parser
    p = html5lib.HTMLParser(tw.builder("etree"), strict=True)
    try:
        if container is None:
            p.parse(text)
        else:
            p.parseFragment(text, container=container)
    except html5parser.ParseError as e:
        return ("ParseError", str(e))
    except Exception as e:
        return ("other", "%s: %s" % (type(e).__name__, str(e)[:100]))
    return ("none", None)


def judge(text, container):
    """-> None | (what, diff_class, expected, actual)"""
    from html5lib.constants import E
    try:
        errors = nonstrict(text, container)
    except Exception as e:
        return ("non-strict parse raised %s" % type(e).__name__, "nonstrict-raised", None, str(e)[:100])
    norm = text.replace("\r\n", "\n").replace("\r", "\n")
    lines = norm.split("\n")
    first_msg = None
    for i, err in enumerate(errors):
        try:
            (line, col), code, datavars = err
        except Exception:
            return ("malformed error record", "record-shape", None, repr(err)[:100])
        if code not in E:
            return ("error code %r has no message template" % code, "code-not-in-E:%s" % code, None, code)
        try:
            msg = E[code] % datavars
        except Exception as e:
            return ("message template for %r does not format with %r" % (code, datavars), "format:%s" % code, None, repr(datavars))
        if i == 0:
            first_msg = msg
        if not (isinstance(line, int) and isinstance(col, int) and 1 <= line <= len(lines) and 0 <= col <= len(lines[line - 1])):
            return ("error position %r outside the input" % ((line, col),), "position:%s" % code, "1<=line<=%d" % len(lines), [line, col])
    kind, msg = strict(text, container)
    if kind == "other":
        return ("strict mode raised %s instead of ParseError" % msg, "strict-other:%s" % msg.split(":")[0] + (":" + errors[0][1] if errors else ""), "ParseError", msg)
    if errors and kind == "none":
        return ("errors recorded (%s) but strict mode did not raise" % errors[0][1], "strict-silent:%s" % errors[0][1], "ParseError", None)
    if not errors and kind == "ParseError":
        return ("strict mode raised although no error is recorded non-strictly", "strict-spurious", None, msg)
    if errors and msg != first_msg:
        return ("strict mode raised a different error than the first recorded one", "strict-not-first:%s" % errors[0][1], first_msg, msg)
    return None


# -- byte input whose encoding is changed by a late <meta> (the parse restarts): positions of the final pass -----------

def restart_cases():
    out = []
    for k in range(34, 61, 2):                       # filler of more than 1024 bytes: the prescan must miss the declaration
        filler = "<!--" + ("x" * 30 + "\n") * k + "-->"
        for tail in ("<p></b>\n</i>", "<p>\u00e9<b>\n", "</i>", "\r\n</p>\r<b>x"):
            for chunk in (None, 7, 64, 1000):
                out.append((filler + "<meta charset=utf-8>" + tail, chunk))
    return out


def judge_restart(text, chunk):
    import html5lib
    from html5lib import _inputstream, html5parser
    data = text.encode("utf-8")
    old = _inputstream.HTMLUnicodeInputStream._defaultChunkSize
    if chunk:
        _inputstream.HTMLUnicodeInputStream._defaultChunkSize = chunk
    try:
        p = html5lib.HTMLParser(tw.builder("etree"))
        p.parse(data, useChardet=False)
        errors = list(p.errors)
        q = html5lib.HTMLParser(tw.builder("etree"))
        q.parse(text)
        ref_errors = list(q.errors)
        s = html5lib.HTMLParser(tw.builder("etree"), strict=True)
        try:
            s.parse(data, useChardet=False)
            raised = None
        except html5parser.ParseError as e:
            raised = str(e)
        except Exception as e:
            return ("strict mode raised %s" % type(e).__name__, "restart:strict-other", "ParseError", type(e).__name__)
    finally:
        _inputstream.HTMLUnicodeInputStream._defaultChunkSize = old
    if p.documentEncoding != "utf-8":
        return ("harness: the late <meta> did not restart the parse", "restart:harness", "utf-8", p.documentEncoding)
    lines = text.replace("\r\n", "\n").replace("\r", "\n").split("\n")
    for (line, col), code, dv in errors:
        if not (1 <= line <= len(lines) and 0 <= col <= len(lines[line - 1])):
            return ("after an encoding restart error %s is reported at %r, outside the input (%d lines)" % (code, (line, col), len(lines)),
                    "restart:position", "1<=line<=%d" % len(lines), [line, col])
    if [(e[0], e[1]) for e in errors] != [(e[0], e[1]) for e in ref_errors]:
        return ("after an encoding restart the recorded errors differ from those of the same characters parsed as str",
                "restart:differs-from-str", [[list(e[0]), e[1]] for e in ref_errors][:5], [[list(e[0]), e[1]] for e in errors][:5])
    if bool(errors) != (raised is not None):
        return ("strict mode and the error list disagree after an encoding restart", "restart:strict-iff", bool(errors), raised)
    return None


def _restart_shard(cases):
    out = []
    for text, chunk in cases:
        j = judge_restart(text, chunk)
        out.append(None if j is None else engine.Violation(H, {"kind": "restart", "chunk": chunk, "container": None}, text, j[2], j[3], j[0], j[1]))
    return out


def step(ctx, word):
    kind, theme, container, seed = ctx
    if kind == "tok":
        text = c02.text_of(theme, seed, word)
    else:
        text = tw.text_of(theme, word)
    j = judge(text, container)
    v = None
    if j is not None:
        v = engine.Violation(H, {"kind": kind, "theme": theme, "container": container}, text, j[2], j[3], j[0], j[1])
    try:
        p, snap = drive.suspended_parse(text, builder="dom", container=container)
        key = drive.parser_key(p, snap)
    except Exception as e:
        key = ("crash", text)
    codes = ()
    try:
        codes = tuple(sorted(set(e[1] for e in nonstrict(text, container))))
    except Exception:
        pass
    return (key, codes, v)


def execute(config, case):
    if config.get("kind") == "restart":
        j = judge_restart(case, config.get("chunk"))
        return None if j is None else engine.Violation(H, config, case, j[2], j[3], j[0], j[1])
    j = judge(case, config.get("container"))
    if j is None:
        return None
    return engine.Violation(H, config, case, j[2], j[3], j[0], j[1])


def replay(harness, config, case):
    return execute(config, case)


def run(run):
    quick = run.tier == "quick"
    classes = {}
    codes = set()
    tot_s = tot_t = 0
    tokdepth = {"tag": 5 if quick else 6, "cmt": 6 if quick else 8, "doctype": 5 if quick else 6, "raw": 5 if quick else 6,
                "ref": 4 if quick else 5, "cdata": 5 if quick else 7}
    jobs = []
    for theme, (letters, seeds, cfgs) in c02.THEMES.items():
        for seed in seeds:
            d = tokdepth[theme] - (1 if seed else 0)
            conts = [None]
            if theme == "raw":
                conts = ["title", "script", "style", "textarea", "plaintext"]
                if seed:
                    conts = ["script"]
            if theme == "cdata":
                conts = [None, "div"]
                seed2 = "<svg>"
                jobs.append((("tok", theme, None, seed2), len(letters), d))
            for c in conts:
                jobs.append((("tok", theme, c, seed), len(letters), d))
    treedepth = {"T1": 4, "T2": 4, "T3": 4, "T4": 4, "T5": 3, "T6": 3, "T7": 4, "TU": 2} if quick else \
                {"T1": 5, "T2": 5, "T3": 5, "T4": 4, "T5": 4, "T6": 4, "T7": 4, "TU": 3}
    for theme, d in treedepth.items():
        jobs.append((("tree", theme, None, ""), len(tw.THEMES[theme]), d))
        for c in {"T1": ["td"], "T2": ["table", "tr"], "T3": ["select"], "T4": ["html", "head"], "T5": ["div"], "T6": ["p"],
                  "T7": ["title"], "TU": ["div", "table", "select", "frameset"]}[theme]:
            jobs.append((("tree", theme, c, ""), len(tw.THEMES[theme]), max(2, d - 1)))
    for ctx, nl, d in jobs:
        res = engine.product_bfs(step, nl, d, ctx=ctx)
        tot_s += res.states
        tot_t += res.transitions
        for o in res.obs:
            codes.update(o)
        for v in res.violations:
            if v.diff_class not in classes or len(v.case) < len(classes[v.diff_class].case):
                classes[v.diff_class] = v
    rc = restart_cases()
    for vs in engine.pmap(_restart_shard, [rc[i:i + 16] for i in range(0, len(rc), 16)], chunksize=1):
        for v in vs:
            run.add("restart_parses")
            if v is not None:
                classes.setdefault(v.diff_class, v)
    voids = void_documents()
    run.set("void_element_documents", len(voids))
    for doc in CONFORMING + voids:
        run.add("conforming_documents")
        try:
            errs = nonstrict(doc, None)
        except Exception as e:
            errs = [((0, 0), "raised-" + type(e).__name__, {})]
        if errs:
            classes.setdefault("conforming:" + errs[0][1], engine.Violation(
                H, {"kind": "conforming", "container": None}, doc, [], [list(e[0]) + [e[1]] for e in errs][:5],
                "a conforming document records parse error %s" % errs[0][1], "conforming:" + errs[0][1]))
        j = judge(doc, None)
        if j is not None:
            classes.setdefault(j[1], engine.Violation(H, {"kind": "conforming", "container": None}, doc, j[2], j[3], j[0], j[1]))
    # generated conforming documents (shared generator with C07) must record no parse errors either
    from checks import c07_roundtrip as c07
    for r in engine.pmap(c07._equiv_shard, c07.equivalence_shards(run.tier), chunksize=1):
        run.add("conforming_documents", r["docs"])
        for code, text in r["conf_err"].items():
            classes.setdefault("conforming:" + code, engine.Violation(
                H, {"kind": "conforming", "container": None}, text, [], [code],
                "a conforming document records parse error %s" % code, "conforming:" + code))
    for v in classes.values():
        run.violation(v)
    from html5lib.constants import E
    run.set("states", tot_s)
    run.set("transitions", tot_t)
    run.set("traces_validated_against_impl", tot_t)
    run.set("distinct_error_codes_reached", len(codes))
    run.set("error_codes_in_E", len(E))
    run.set("error_codes_reached", sorted(codes))
    run.set("exhaustive", True)
    run.sample({"text": "<a b='", "errors": [e[1] for e in nonstrict("<a b='", None)]})
    run.sample({"text": CONFORMING[1]})
    return run.finish("model_checking")
