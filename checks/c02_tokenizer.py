"""C02 - tokenizer output equals the WHATWG tokenization of every input.

PB: product BFS of the real HTMLTokenizer (with the real HTMLUnicodeInputStream underneath) x
ref/tokenizer.py, per theme (alphabet of characters / keyword macro-letters), start state, last start
tag and CDATA flag, from the empty prefix and from seed prefixes that reach deep control states.
State key = (suspended implementation state, suspended reference state); every transition runs the
real tokenizer to EOF and compares the complete token list with the reference's.
"""
import os

from mc import engine, drive
from ref import tokenizer as ref

H = "c02_tok"

NUL, SUR, AST = "\x00", "\ud800", "😀"

THEMES = {
    # name: (letters, seeds, configs[(state, last, cdata)])
    "tag": (["a", "<", ">", "/", " ", "=", '"', "'", "A", "&", "\n", NUL, "`", "é", AST, SUR, "\r", "?", "!"],
            ["", "<a ", "<a b=", '<a b="', "<a b='", "<a b=c", "</a", "<a/"],
            [("data", None, False)]),
    "cmt": (["-", "<", "!", ">", "a", " ", NUL, "--", "\r"],
            ["", "<!--", "<!--a", "<!", "<?", "</ "],
            [("data", None, False)]),
    "doctype": (["DOCTYPE", "PUBLIC", "SYSTEM", "system", " ", '"', "'", ">", "a", "A", NUL, "<!", "\n", "public"],
                ["<!DOCTYPE", "<!DOCTYPE ", "<!DOCTYPE a", "<!DOCTYPE a ", "<!DOCTYPE a PUBLIC", '<!DOCTYPE a PUBLIC "',
                 '<!DOCTYPE a PUBLIC "x"', "<!DOCTYPE a SYSTEM", "<!DOCTYPE a SYSTEM '", "<!DOCTYPE a SYSTEM 'x'", "<!doc", ""],
                [("data", None, False)]),
    "raw": (["<", "/", "a", ">", " ", "-", "!", "script", "title", "SCRIPT", "&", NUL, "x", "\r", "</script", "</ScRiPt"],
            ["", "<!--", "<!--<script", "<!--<script>", "</", "<!--<script></script", "<!--<SCRIPT></ScRiPt", "<!--<ScRiPt", "</TITLE", "</STYLE",
             # inside the (double-)escaped dash / dash-dash states, so that words of the seeded depth leave them and still
             # have letters left to show in which state the tokenizer ended up
             "<!--<script>-", "<!--<script>--", "<!---", "<!----"],
            [("rcdata", "title", False), ("rawtext", "style", False), ("script_data", "script", False),
             ("plaintext", "plaintext", False), ("rcdata", None, False), ("script_data", "title", False),
             ("rawtext", "xmp", False), ("rcdata", "a", False)]),
    "ref": (["&", "#", "x", "X", "0", "9", "a", "f", "g", ";", "=", "amp", "not", "notin", "noti", "lt", "gt;", " ", "<",
             "1", "D", "8", NUL, '"'],
            ["", '<a b="', "<a b='", "<a b="],
            [("data", None, False), ("rcdata", "title", False)]),
    "cdata": (["<![CDATA[", "]", ">", "a", NUL, "<", "]]>", "&", "\r", "<![cdata["],
              [""],
              [("data", None, True), ("data", None, False)]),
}


# A word explored from a seed that opens an attribute value ends inside the tag, and a tag cut off by EOF emits no
# token: the value built so far would never be compared.  Such words are therefore ALSO judged with the shortest
# suffix that completes the tag.
CLOSERS = {'<a b="': '">', "<a b='": "'>", "<a b=": " >"}


def text_of(theme, seed, word):
    letters = THEMES[theme][0]
    return seed + "".join(letters[i] for i in word)


def compare(text, cfg):
    state, last, cdata = cfg
    impl = drive.impl_tokenize(text, state, last, cdata)
    exp, _ = ref.tokenize(text, state=state, last_start_tag=last, cdata=cdata)
    return impl, exp


def diff_class(impl, exp, cfg):
    for i in range(max(len(impl), len(exp))):
        a = impl[i] if i < len(impl) else ("<none>",)
        b = exp[i] if i < len(exp) else ("<none>",)
        if a != b:
            if a[0] == b[0] == "Character":
                return "%s:text" % cfg[0]
            if a[0] == b[0] == "StartTag":
                for j, (x, y) in enumerate(zip(a, b)):
                    if x != y:
                        return "%s:StartTag.%s" % (cfg[0], ["", "name", "attrs", "selfclosing"][j])
            if a[0] == b[0] == "DOCTYPE":
                for j, (x, y) in enumerate(zip(a, b)):
                    if x != y:
                        return "%s:DOCTYPE.%s" % (cfg[0], ["", "name", "public", "system", "forcequirks"][j])
            if a[0] == b[0]:
                return "%s:%s" % (cfg[0], a[0])
            return "%s:%s!=%s" % (cfg[0], a[0], b[0])
    return "?"


def step(ctx, word):
    theme, seed, cfg = ctx
    text = text_of(theme, seed, word)
    impl, exp = compare(text, cfg)
    v = None
    if impl != exp:
        v = engine.Violation(H, {"theme": theme, "seed": seed, "state": cfg[0], "last": cfg[1], "cdata": cfg[2]},
                             text, exp, impl, "token sequence differs from the WHATWG tokenization",
                             diff_class(impl, exp, cfg))
    if v is None and seed in CLOSERS:
        closed = text + CLOSERS[seed]
        impl2, exp2 = compare(closed, cfg)
        if impl2 != exp2:
            v = engine.Violation(H, {"theme": theme, "seed": seed, "state": cfg[0], "last": cfg[1], "cdata": cfg[2]},
                                 closed, exp2, impl2, "token sequence differs from the WHATWG tokenization",
                                 diff_class(impl2, exp2, cfg))
    ikey = drive.impl_suspended_state(text, *cfg)
    _, rt = ref.tokenize(text, state=cfg[0], last_start_tag=cfg[1], cdata=cfg[2], final=False)
    rkey = rt.snapshot()
    if not rkey[0].startswith(("rcdata", "rawtext", "script_data")) and rkey[1] not in ("rcdata",):
        # the last start tag name is only read by the RCDATA / RAWTEXT / script end-tag states, and
        # without a tree builder the tokenizer never returns to those states
        rkey = rkey[:5] + (None,) + rkey[6:]
    return ((ikey, rkey), engine.digest(impl), v)


def execute(config, case):
    cfg = (config["state"], config["last"], config["cdata"])
    impl, exp = compare(case, cfg)
    if impl == exp:
        return None
    return engine.Violation(H, config, case, exp, impl, "token sequence differs from the WHATWG tokenization",
                            diff_class(impl, exp, cfg))


def replay(harness, config, case):
    return execute(config, case)


def run(run):
    quick = run.tier == "quick"
    depth = {"tag": 5 if quick else 6, "cmt": 8 if quick else 10, "doctype": 5 if quick else 7,
             "raw": 5 if quick else 7, "ref": 4 if quick else 5, "cdata": 6 if quick else 9}
    only = os.environ.get("VERIF_THEMES")
    total_states = total_trans = 0
    bis_checks = bis_fail = 0
    obs = set()
    per_theme = {}
    classes = {}
    impl_key_ok = True
    for theme, (letters, seeds, cfgs) in THEMES.items():
        if only and theme not in only.split(","):
            continue
        st = tr = 0
        for cfg in cfgs:
            for seed in seeds:
                if seed and cfg[0] != "data" and theme != "raw":
                    continue
                d = depth[theme] - (1 if seed else 0)
                res = engine.product_bfs(step, len(letters), d, bisim_depth=max(0, d - 2), ctx=(theme, seed, cfg))
                for pw, rep in res.bisim_examples:
                    run.notes.append("abstraction_unsound: %s %r pruned=%r representative=%r" % (
                        theme, cfg, text_of(theme, seed, pw), text_of(theme, seed, rep)))
                st += res.states
                tr += res.transitions
                bis_checks += res.bisim_checks
                bis_fail += res.bisim_failures
                obs |= res.obs
                for v in res.violations:
                    k = (v.diff_class, theme)
                    if k not in classes or len(v.case) < len(classes[k].case):
                        classes[k] = v
                if res.transitions and len(seed) == 0:
                    run.sample({"theme": theme, "config": list(cfg), "text": text_of(theme, seed, tuple(range(min(d, len(letters)))))})
        per_theme[theme] = {"states": st, "transitions": tr, "depth": depth[theme], "letters": len(letters)}
        total_states += st
        total_trans += tr
    probe = drive.impl_suspended_state("<a b", "data", None, False)
    if probe and probe[0] in ("unavailable",):
        impl_key_ok = False
    for v in classes.values():
        run.violation(v)
    run.set("states", total_states)
    run.set("transitions", total_trans)
    run.set("traces_validated_against_impl", total_trans)
    run.set("distinct_observations", len(obs))
    run.set("bisimulation_checks", bis_checks)
    run.set("abstraction_unsound", bis_fail)
    run.set("themes", per_theme)
    run.set("impl_state_key", "ok" if impl_key_ok else "unavailable")
    run.set("exhaustive", True)
    run.assumptions.append("ref/tokenizer.py is my transcription of the WHATWG tokenizer (June 2020); named references from html.entities.html5")
    return run.finish("model_checking")
