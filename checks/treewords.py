"""TREE themes (DESIGN section 4): markup macro-letters, fragment containers, parse helpers."""
import io

from mc import trees

T1 = ["x", " ", "<a>", "</a>", "<b>", "</b>", "<i>", "</i>", "<nobr>", "<p>", "</p>", "<div>", "</div>", "<table>",
      "</table>", "<td>", "<button>", "<applet>", "<a href=1>", "</x>"]
T2 = ["x", " ", "<table>", "</table>", "<caption>", "<colgroup>", "<col>", "<tbody>", "</tbody>", "<tr>", "</tr>", "<td>",
      "</td>", "<th>", "<b>", "<select>", "<form>", "<input type=hidden>", "<input>", "<!--c-->", "<style>", "</caption>",
      "</b>", "<p>"]
T3 = ["<select>", "</select>", "<option>", "</option>", "<optgroup>", "</optgroup>", "<input>", "<textarea>", "<table>", "<tr>",
      "<td>", "x", "<b>", "<script>", "</table>", "<keygen>", "</td>"]
T4 = ["<!DOCTYPE html>", '<!DOCTYPE q PUBLIC "-//W3C//DTD HTML 4.01 Frameset//">', "<html a=1>", "<head>", "</head>", "<body b=1>",
      "</body>", "</html>", "<title>", "</title>", "<meta>", "<base>", "<noscript>", "</noscript>", "<frameset>", "</frameset>",
      "<frame>", "<noframes>", "</noframes>", "<!--c-->", " ", "x", "<br>", "</br>", "<link>", "<style>", "</style>", "<p>",
      "<html a c=2>", "<body b c=2>"]      # (empty-valued attributes met again by a later <html>/<body> tag: merge rules)
T5 = ["<svg>", "</svg>", "<math>", "</math>", "<mi>", "<mglyph>", "<annotation-xml encoding=text/html>", "<annotation-xml>",
      "<foreignObject>", "<desc>", "<title>", "<p>", "</p>", "<b>", "<font color=r>", "<font>", "<svg/>", "<![CDATA[x]]>", "x",
      "<table>", "<tr>", "</title>", "</foreignObject>", "<g xlink:href=a definitionurl=b>", "</mi>", "<br>", "</br>", "<select>", "</table>",
      "<head>", "<html>", "<colgroup>", "<link>", "<input>"]      # (void-named elements that do not break out of foreign content)
T6 = ["<li>", "</li>", "<ul>", "</ul>", "<dd>", "<dt>", "<p>", "</p>", "<h1>", "<h2>", "</h1>", "<pre>", "\n", "<textarea>",
      "</textarea>", "<form>", "</form>", "<rt>", "<rp>", "<ruby>", "<option>", "<button>", "</button>", "<address>", "<hr>",
      "<listing>", "x", "<div>", "</div>", "<b>"]
T7 = ["<script>", "</script>", "<!--", "-->", "<style>", "</style>", "<xmp>", "<iframe>", "<noembed>", "<title>", "</title>",
      "<textarea>", "x", "<", "\x00", "&amp;", "</xmp>", "</iframe>", "<plaintext>", "</textarea>", " "]

T8 = ["<b>", "</b>", "<p>", "</p>", "x", "<figcaption>", "<main>", "<summary>", "<hgroup>", "<dialog>", "<details>", "<rb>", "<rtc>", "<rt>", "<rp>",
      "<ruby>", "</ruby>", "<source>", "<track>", "<keygen>", "<isindex>", "<menuitem>", "<command>", "<image>", "<li>", "<div>", "</div>",
      "<math>", "<mi>", "<mo>", "<svg>", "<desc>", "<a>", "</a>", "<head>", "<nav>", "<section>", "<center>", "<menu>"]

THEMES = {"T8": T8, "T1": T1, "T2": T2, "T3": T3, "T4": T4, "T5": T5, "T6": T6, "T7": T7}
_u = []
for _t in (T1, T2, T3, T4, T5, T6, T7):
    for _l in _t:
        if _l not in _u:
            _u.append(_l)
TU = _u
THEMES["TU"] = TU
# union alphabet for FRAGMENT mode: without the letters that open foreign content, because the June-2020 text
# of the HTML-breakout rule has a fragment-case clause whose reading I could not settle offline (DESIGN section 9)
TUF = [l for l in TU if l not in ("<svg>", "<math>")]
THEMES["TUF"] = TUF
THEMES["T8F"] = [l for l in T8 if l not in ("<svg>", "<math>")]

CTX = ["div", "body", "head", "html", "title", "textarea", "style", "script", "xmp", "iframe", "noembed", "noframes",
       "noscript", "plaintext", "table", "tbody", "tfoot", "thead", "tr", "td", "th", "caption", "colgroup", "select",
       "frameset", "p", "a", "unknownx"]


# seed words (deep states reached by a fixed prefix; explored further from there, document mode)
SEEDS = {
    "T1": [("<b>", "<b>", "<b>"), ("<b>", "<p>", "<b>", "<b>"), ("<a>", "<b>", "<i>", "<div>"), ("<table>", "<b>", "<i>"), ("<b>", "<i>", "<a>", "<p>", "<div>")],
    "T2": [("<table>", "<tr>", "<td>"), ("<table>", "<caption>", "<b>"), ("<table>", "<colgroup>")],
    "T3": [("<select>", "<optgroup>", "<option>"), ("<table>", "<tr>", "<td>", "<select>")],
    "T5": [("<svg>", "<foreignObject>", "<math>", "<mi>"), ("<math>", "<annotation-xml encoding=text/html>", "<svg>")],
    "T6": [("<ul>", "<li>", "<p>"), ("<ruby>", "<rt>"), ("<form>", "<p>", "<button>")],
    "T8": [("<ruby>", "<rb>", "<rtc>", "<rt>")],
}


def seed_words(theme):
    L = THEMES[theme]
    return [tuple(L.index(l) for l in w) for w in SEEDS.get(theme, [])]


def text_of(theme, word, seed=""):
    L = THEMES[theme]
    return seed + "".join(L[i] for i in word)


_TB = {}


def builder(name, **kw):
    """tree builder classes are looked up once per process (getTreeBuilder rebuilds classes for kwargs)"""
    k = (name, tuple(sorted(kw.items())))
    if k not in _TB:
        from html5lib import treebuilders
        _TB[k] = treebuilders.getTreeBuilder(name, **kw)
    return _TB[k]


def parse_dom(text, container=None, scripting=False, ns=True):
    import html5lib
    p = html5lib.HTMLParser(builder("dom"), namespaceHTMLElements=ns)
    if container is None:
        d = p.parse(text, scripting=scripting)
    else:
        d = p.parseFragment(text, container=container, scripting=scripting)
    return trees.canon_dom(d)


def parse_etree(text, container=None, scripting=False, ns=True, full=False):
    import html5lib
    p = html5lib.HTMLParser(builder("etree", fullTree=full), namespaceHTMLElements=ns)
    if container is None:
        d = p.parse(text, scripting=scripting)
        if full:
            return trees.canon_etree(d)
        return (trees.canon_etree(d),) if d is not None else ()
    d = p.parseFragment(text, container=container, scripting=scripting)
    return trees.canon_etree(d)


# ---- element-name sweep (flat product: every element name of the standard's tables x structural templates) ----------
# Table-driven code (special / scoping / formatting / void / breakout / implied-end-tag name sets in constants.py and in
# the phase dispatch tables) is decided per NAME; the BFS alphabets contain only a few dozen names, this product
# contains all of them.  <template> is left out (known finding: not implemented).
ALL_NAMES = """a abbr address area article aside audio b base bdi bdo blockquote body br button canvas caption cite code col colgroup data
datalist dd del details dfn dialog div dl dt em embed fieldset figcaption figure footer form h1 h2 h3 h4 h5 h6 head header hgroup hr html i
iframe img input ins kbd label legend li link main map mark menu meta meter nav noscript object ol optgroup option output p param picture
pre progress q rp rt ruby s samp script section select slot small source span strong style sub summary sup table tbody td textarea
tfoot th thead time title tr track u ul var video wbr applet acronym bgsound dir frame frameset noframes isindex keygen listing menuitem
nextid noembed plaintext rb rtc strike xmp basefont big blink center font marquee multicol nobr spacer tt image command unknownx
svg math mi mo mn ms mtext annotation-xml foreignobject desc mglyph malignmark""".split()
NAME_TEMPLATES = ["<%s>x", "<%s></%s>x", "<p><%s>x</p>y", "<b><%s>x</b>y", "<table><%s>x", "<%s><table><tr><td>x", "<a1><%s></a1>x", "<li><%s><li>x",
                  "<%s><p></%s>x", "<select><%s>x", "<svg><%s>x</svg>y", "<math><%s>x", "<%s><%s>x", "<button><%s></button>x", "<h1><%s>x</h1>y",
                  "<ul><li><%s></li>x", "<table><tr><td><%s></td>x", "<%s a=1>x</%s><%s b=2>", "</%s>x", "<p></%s>x", "<table></%s>x", "<dd><%s><dt>x",
                  "<head><%s></head>x", "<a><%s><a>x", "<nobr><%s><nobr>x", "<form><%s><form>x", "<svg><desc><%s>x", "<math><mi><%s>x", "<p><%s></p>x",
                  "<frameset><%s>x", "<html><%s><body a=1>x", "<table><caption><%s><tr>x", "<table><colgroup><%s>x", "<select><option><%s>x</select>y"]
NAME_CONTEXTS = [(None, False), (None, True), ("div", False), ("td", False), ("select", False), ("table", False)]


def foreign_cases():
    """every entry of the standard's SVG tag-name / attribute-name fix-up tables, of the foreign-attribute table, and every
    foreign scoping element / integration point, in templates that make the entry matter (names from ref/treebuilder.py)"""
    from ref import treebuilder as rtb
    out = []
    for low in sorted(rtb.SVG_TAGS):
        out += ["<svg><%s>x" % low, "<svg><%s></%s>y" % (low, low), "<p><svg><%s></p>x" % low, "<svg><%s><p>x" % low, "<math><%s>x" % low,
                "<svg><%s></%s>y" % (low.upper(), rtb.SVG_TAGS[low])]
    for low in sorted(rtb.SVG_ATTRS):
        out += ["<svg %s=1>" % low, "<math %s=1>" % low, "<p %s=1>" % low, "<svg><g %s=1 a=2>" % low.upper()]
    for k in sorted(rtb.FOREIGN_ATTRS) + ["xlink:x", "xml:base", "xml:x", "xmlns:x", "xlink", "xml"]:
        out += ["<svg %s=1>" % k, "<math %s=1>" % k, "<p %s=1>" % k, "<svg><g %s=1 b=2>" % k, "<math><mi %s=1>" % k.upper()]
    out += ["<math definitionurl=1>", "<svg definitionurl=1>", "<math><mi definitionurl=1>", "<p definitionurl=1>"]
    for host, names in (("svg", ["foreignObject", "desc", "title"]),
                        ("math", ["mi", "mo", "mn", "ms", "mtext", "annotation-xml", "annotation-xml encoding=text/html",
                                  "annotation-xml encoding=application/xhtml+xml", "annotation-xml encoding=x"])):
        for n in names:
            out += ["<p><%s><%s></p>y" % (host, n), "<b><%s><%s></b>y" % (host, n), "<li><%s><%s><li>y" % (host, n),
                    "<button><%s><%s><button>y" % (host, n), "<table><tr><td><%s><%s></td>y" % (host, n), "<%s><%s><p>x</p><%s>y" % (host, n, host),
                    "<%s><%s><mglyph>x" % (host, n), "<%s><%s><svg>x" % (host, n), "<%s><%s><b>x<table>" % (host, n), "<select><%s><%s>x" % (host, n)]
    return out


def name_cases():
    """-> list of (text, container, scripting); fragment parses of foreign content are left out (see DESIGN section 9)"""
    out = [(t, None, False) for t in foreign_cases()]
    for name in ALL_NAMES:
        for t in NAME_TEMPLATES:
            text = t.replace("%s", name)
            for cont, scr in NAME_CONTEXTS:
                if cont is not None and ("<svg" in text or "<math" in text):
                    continue
                out.append((text, cont, scr))
    return out
