"""C15 - encoded serializations declare their encoding and decode to the same tree.

FE, exhaustive to depth: documents = all words <= D over head letters (meta charset / http-equiv form /
content without http-equiv / unrelated meta / non-ASCII title / a script whose text looks like a meta /
comment / 1100-byte filler) x 3 bodies (ASCII, e-acute, astral; text and attribute) x every output
encoding that is both a WHATWG label and a Python codec name (35) x omit_optional_tags on/off.
Oracle: the bytes parsed with NO hints report documentEncoding == the requested encoding, and the tree
equals an independently computed expectation: the original tree with every <meta charset> / http-equiv
content-type declaration rewritten to the new encoding, or a <meta charset> inserted as first child of head
when the head had none.
"""
import itertools
import os

from mc import engine, trees
from checks import treewords as tw

H = "c15_metacharset"
HTML_NS = trees.HTML_NS

HEAD = ["<meta charset=windows-1251>", '<meta http-equiv="Content-Type" content="text/html; charset=windows-1251">',
        '<meta content="text/html; charset=windows-1251">', "<meta name=x content=y>", "<title>é</title>",
        '<script>"<meta charset=koi8-r>"</script>', "<!--c-->", "<style>" + "a{}" * 370 + "</style>",
        '<meta http-equiv=refresh content="1; url=x">', "<meta CHARSET=old>",
        # a Content-Type pragma that declares no charset at all / an empty one: the rewrite must still produce a declaration
        '<meta http-equiv=Content-Type content="text/html">', '<meta content="a; CHARSET = " http-equiv=content-type>',
        # a Content-Type pragma with no content attribute at all declares nothing and cannot be rewritten: a declaration
        # must still be injected (alone, and followed/preceded by the other letters through the word enumeration)
        '<meta http-equiv=Content-Type>', '<meta HTTP-EQUIV=CONTENT-TYPE name=content>']
BODIES = ["<p title=a>x</p>", "<p title=é>é x</p>", "<p title=😀>😀</p><meta charset=iso-8859-2>",
          "<p title=Écoleé data-q='Ñ=1'>École É;</p>"]      # (upper-case Latin-1: named references that also exist without ';')


def encodings():
    import webencodings
    out = []
    for n in sorted(set(webencodings.lookup(l).name for l in webencodings.LABELS)):
        try:
            "x".encode(n)
        except LookupError:
            continue
        out.append(n)
    return out


def doc_text(word, body):
    return "<!DOCTYPE html><html><head>" + "".join(HEAD[i] for i in word) + "</head><body>" + BODIES[body] + "</body></html>"


def expected_tree(tree, enc):
    """independent model of what inject_meta_charset must do to the tree"""
    rewritten_in_head = [False]

    def rewrite_meta(n):
        attrs = list(n[3])
        keys = [k for k, v in attrs]
        names = [k[1].lower() if k[0] is None else None for k in keys]
        if "charset" in names:
            i = names.index("charset")
            attrs[i] = (attrs[i][0], enc)
            return ("elem", n[1], n[2], tuple(attrs), n[4]), True
        d = {k[1]: v for k, v in attrs if k[0] is None}
        if d.get("http-equiv", "").lower() == "content-type" and "content" in d:
            attrs = [(k, ("text/html; charset=%s" % enc) if k == (None, "content") else v) for k, v in attrs]
            return ("elem", n[1], n[2], tuple(attrs), n[4]), True
        return n, False

    def walk(nodes, in_head):
        out = []
        for n in nodes:
            if n[0] == "elem":
                if n[2] == "meta" and n[1] == HTML_NS:
                    n, did = rewrite_meta(n)
                    if did and in_head:
                        rewritten_in_head[0] = True
                    out.append(n)
                    continue
                kids = walk(n[4], in_head or (n[2] == "head" and n[1] == HTML_NS))
                if n[2] == "head" and n[1] == HTML_NS and not in_head:
                    if not rewritten_in_head[0]:
                        kids = (("elem", HTML_NS, "meta", (((None, "charset"), enc),), ()),) + tuple(kids)
                        rewritten_in_head[0] = True
                out.append(("elem", n[1], n[2], n[3], tuple(kids)))
            else:
                out.append(n)
        return tuple(out)
    return walk(tree, False)


def judge(text, enc, omit):
    """-> None | (what, diff_class, expected, actual)"""
    import html5lib
    import webencodings
    from html5lib import serializer, treewalkers
    p = html5lib.HTMLParser(tw.builder("dom"))
    d = p.parse(text)
    t0 = trees.canon_dom(d)
    s = serializer.HTMLSerializer(omit_optional_tags=omit)
    try:
        data = s.render(treewalkers.getTreeWalker("dom")(d), enc)
    except Exception as e:
        return ("serializer raised %s: %s" % (type(e).__name__, str(e)[:80]), "raised:" + type(e).__name__, None, None)
    p2 = html5lib.HTMLParser(tw.builder("dom"))
    d2 = p2.parse(data, useChardet=False)
    got_enc = p2.documentEncoding
    want = webencodings.lookup(enc).name
    if got_enc != want:
        return ("bytes serialized as %s are decoded as %s when parsed without hints" % (enc, got_enc), "encoding-not-recovered", want, got_enc)
    exp = trees.sort_attrs(expected_tree(t0, enc))
    got = trees.sort_attrs(trees.canon_dom(d2))
    if got != exp:
        return ("tree of the encoded serialization differs from the expected tree", "tree:" + tree_diff(exp, got), exp, got)
    return None


def tree_diff(a, b):
    from checks.c07_roundtrip import diff_path
    return diff_path(a, b)


def _shard(args):
    enc, D = args[:2]
    first = args[2] if len(args) > 2 else None        # None: all words; -1: the empty word; k: words starting with letter k
    res = {"evals": 0, "viol": {}, "docs": 0}
    for n in range(0, D + 1):
        for w in itertools.product(range(len(HEAD)), repeat=n):
            if first is not None and ((first == -1) != (n == 0) or (n > 0 and w[0] != first)):
                continue
            for b in range(len(BODIES)):
                text = doc_text(w, b)
                res["docs"] += 1
                for omit in (True, False):
                    res["evals"] += 1
                    j = judge(text, enc, omit)
                    if j is not None:
                        cls = j[1]
                        if cls not in res["viol"] or len(text) < len(res["viol"][cls][0]):
                            res["viol"][cls] = (text, omit, j)
    return res


def execute(config, case):
    j = judge(case, config["encoding"], config["omit_optional_tags"])
    if j is None:
        return None
    return engine.Violation(H, config, case, j[2], j[3], j[0], j[1] + ":" + config["encoding"] if config["encoding"].startswith("utf-16") else j[1])


def replay(harness, config, case):
    return execute(config, case)


def run(run):
    quick = run.tier == "quick"
    D = 3 if quick else 4
    encs = encodings()
    # head words of full depth for one encoding of each kind (UTF-8, single-byte, the multi-byte families, UTF-16); the
    # head shape and the encoding interact only through the declaration text, so the other labels get all heads of
    # length <= 1 (2)
    core = ["utf-8", "koi8-r", "windows-1252", "iso-8859-2", "shift_jis", "euc-jp", "gb18030", "big5", "utf-16le", "utf-16be"]
    shards = []
    for e in encs:
        if e in core:
            shards += [(e, D, k) for k in range(-1, len(HEAD))]
        else:
            shards.append((e, D - 2))
    encs = [sh[0] for sh in shards]
    classes = {}
    for enc, r in zip(encs, engine.pmap(_shard, shards, chunksize=1)):
        run.add("evaluations", r["evals"])
        run.add("documents_x_encodings", r["docs"])
        for cls, (text, omit, j) in r["viol"].items():
            c2 = cls + (":" + enc if enc.startswith("utf-16") else "")
            if c2 not in classes or len(text) < len(classes[c2].case):
                classes[c2] = engine.Violation(H, {"encoding": enc, "omit_optional_tags": omit}, text, j[2], j[3], j[0], c2)
    for v in classes.values():
        run.violation(v)
    run.set("encodings", encs)
    run.set("distinct_nontrivial", run.cov.get("documents_x_encodings", 0))
    run.set("core_encodings", core)
    run.set("rule", "all head words <= %d (core encodings; <= D-2 for the other labels) over %d head letters x %d bodies x %d output encodings (every WHATWG encoding name that is also a Python codec "
            "name) x omit_optional_tags on/off; each case: serialize with the encoding, parse the bytes without hints, compare documentEncoding and tree; "
            "distinct = (document, encoding) pairs" % (D, len(HEAD), len(BODIES), len(encs)))
    run.set("exhaustive", True)
    run.sample({"document": doc_text((0, 4), 1), "encoding": "koi8-r"})
    run.assumptions.append("encodings whose WHATWG name is not a Python codec name (iso-8859-8-i, windows-874, x-mac-cyrillic) cannot be passed to the serializer at all and are not covered")
    return run.finish("exploration")
