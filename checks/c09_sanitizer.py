"""C09 - sanitizer output contains only allow-listed markup, URLs and CSS.

FE, exhaustive to depth:
 (a) token streams from walking the trees of all words of the markup themes (BFS, key = parser state + final
     tree) plus an mXSS-flavoured theme, sanitized by the real filter under several allow-list configurations;
 (b) every URI-valued attribute (13) on an allowed element with values = ALL words <= D over URL macro-letters;
 (c) style values = ALL words <= D over CSS macro-letters;
 x allow-list configurations: default, each protocol removed in turn, data content types emptied, elements
   restricted to {a, p, svg}, attributes restricted to {href, style}, empty sets.
Oracle (invariants on the output stream): no Comment; every tag's (namespace, name) allowed; every attribute
allowed; for URI attributes ref/urlscheme.scheme(value) in allowed protocols or None, data: media type allowed;
style has no url( after CSS-escape decoding and only allowed properties; disallowed tags only as Characters;
the filter does not raise.
"""
import copy
import itertools
import os
import re
import warnings
from collections import OrderedDict

from mc import engine, drive
from checks import treewords as tw, c11_walkers as c11
from checks.alphabets import HTML_NS, SVG_NS
from ref import urlscheme

H = "c09_sanitizer"
XLINK = "http://www.w3.org/1999/xlink"
XML = "http://www.w3.org/XML/1998/namespace"

warnings.simplefilter("ignore")


def san():
    with warnings.catch_warnings():
        warnings.simplefilter("ignore")
        from html5lib.filters import sanitizer
    return sanitizer


def configs():
    s = san()
    out = [("default", {})]
    for p in sorted(s.allowed_protocols):
        out.append(("no-" + p, {"allowed_protocols": s.allowed_protocols - {p}}))
    out.append(("no-data-types", {"allowed_content_types": frozenset()}))
    out.append(("few-elements", {"allowed_elements": frozenset([(HTML_NS, "a"), (HTML_NS, "p"), (SVG_NS, "svg")])}))
    out.append(("few-attributes", {"allowed_attributes": frozenset([(None, "href"), (None, "style"), (XLINK, "href")])}))
    out.append(("nothing", {"allowed_elements": frozenset(), "allowed_attributes": frozenset(), "allowed_protocols": frozenset()}))
    out.append(("only-http", {"allowed_protocols": frozenset(["http"])}))
    return out


CONFIGS = None


def get_configs():
    global CONFIGS
    if CONFIGS is None:
        CONFIGS = configs()
    return CONFIGS


def sanitize(stream, kw):
    s = san()
    with warnings.catch_warnings():
        warnings.simplefilter("ignore")
        return list(s.Filter(copy.deepcopy(stream), **kw))


def css_decode(style):
    """decode CSS escapes: backslash + 1-6 hex (+ optional whitespace), backslash + any char; drop comments"""
    style = re.sub(r"/\*.*?\*/", "", style, flags=re.S)

    def rep(m):
        g = m.group(1)
        if re.match(r"^[0-9a-fA-F]{1,6}$", g.strip()):
            try:
                return chr(int(g.strip(), 16))
            except (ValueError, OverflowError):
                return "�"
        return g
    return re.sub(r"\\([0-9a-fA-F]{1,6}\s?|[^\n])", rep, style)


def check_output(out, kw):
    """invariants on a sanitized stream -> None | (what, diff_class)"""
    s = san()
    elements = kw.get("allowed_elements", s.allowed_elements)
    attributes = kw.get("allowed_attributes", s.allowed_attributes)
    protocols = kw.get("allowed_protocols", s.allowed_protocols)
    ctypes = kw.get("allowed_content_types", s.allowed_content_types)
    css_props = kw.get("allowed_css_properties", s.allowed_css_properties)
    svg_props = kw.get("allowed_svg_properties", s.allowed_svg_properties)
    for t in out:
        ty = t.get("type")
        if ty == "Comment":
            return ("a comment survived", "comment")
        if ty in ("StartTag", "EmptyTag", "EndTag"):
            ns, name = t.get("namespace"), t.get("name")
            if not ((ns, name) in elements or (ns is None and (HTML_NS, name) in elements)):
                return ("disallowed element <%s> survived as a tag" % name, "element")
            if ty == "EndTag":
                continue
            for key, val in t["data"].items():
                if key not in attributes:
                    return ("disallowed attribute %r survived" % (key,), "attribute")
                if is_uri_attr(name, key):
                    sch = urlscheme.scheme(val)
                    if sch is not None and sch not in protocols:
                        return ("URI attribute %r keeps scheme %r" % (key, sch), "scheme")
                    if sch == "data":
                        mt = urlscheme.data_media_type(val)
                        if mt not in ctypes:
                            return ("data: URI with content type %r kept" % mt, "data-content-type")
                if key == (None, "style"):
                    dec = css_decode(val).lower()
                    if re.search(r"url\s*\(", dec):       # the property promises "never url()"; nothing else is demanded
                        return ("style keeps %r" % val, "style-url")
                    for decl in val.split(";"):
                        if not decl.strip():
                            continue
                        prop = decl.split(":", 1)[0].strip().lower()
                        fam = prop.split("-")[0]
                        if prop not in css_props and prop not in svg_props and fam not in ("background", "border", "margin", "padding"):
                            return ("style keeps property %r" % prop, "style-property")
                        if prop not in css_props and prop not in svg_props:
                            # kept only as a member of a shorthand family: every keyword must then be an allowed keyword,
                            # a colour or a length (written here independently and a little wider than the sanitizer's
                            # own test, so that only junk glued to a colour/length is rejected)
                            keywords = kw.get("allowed_css_keywords", s.allowed_css_keywords)
                            for word in decl.split(":", 1)[1].split() if ":" in decl else []:
                                if word in keywords or _COLOUR_OR_LENGTH.match(word):
                                    continue
                                return ("style keeps keyword %r in shorthand property %r" % (word, prop), "style-keyword")
    return None


# Which attributes take a URL is a fact about HTML / SVG, not about the sanitizer: the oracle has its own table (the
# sanitizer's attr_val_is_uri is part of the mechanism under test).  Attributes that are URL-valued on particular
# elements only are listed with those elements.
XLINK_NS = "http://www.w3.org/1999/xlink"
XML_NS = "http://www.w3.org/XML/1998/namespace"
URI_ATTRS = frozenset([(None, n) for n in ("href", "src", "cite", "action", "longdesc", "poster", "background", "datasrc", "dynsrc", "lowsrc",
                                           "ping", "formaction", "manifest", "codebase")] + [(XLINK_NS, "href"), (XML_NS, "base")])
URI_ATTRS_ON = {(None, "icon"): ("command", "menuitem"), (None, "data"): ("object",)}


def is_uri_attr(element, key):
    return key in URI_ATTRS or element in URI_ATTRS_ON.get(key, ())


_COLOUR_OR_LENGTH = re.compile(r"(#[0-9a-fA-F]+|rgb\([0-9%,]*\)?|[0-9.]*(cm|em|ex|in|mm|pc|pt|px|%|,|\))?)\Z")


def judge_stream(stream):
    for cname, kw in get_configs():
        try:
            out = sanitize(stream, kw)
        except Exception as e:
            return ("sanitizer raised %s: %s (config %s)" % (type(e).__name__, str(e)[:60], cname), "raised:" + type(e).__name__, cname, None)
        p = check_output(out, kw)
        if p:
            return (p[0] + " (config %s)" % cname, p[1], cname, c11.jsonable_stream(out))
    return None


# ---- (a) parsed streams -------------------------------------------------------------------------------

TX = ["<svg>", "<math>", "<style>", "<script>", "<a href=javascript:x>", "<img src=x onerror=1>", "<!--c-->", "<p style=color:red>",
      "<p style=background:url(x)>", "<a href='java\tscript:x'>", "<a xlink:href=javascript:x>", "<svg><a xlink:href=javascript:x>",
      "</svg>", "x", "<b>", "<iframe>", "<form action=vbscript:x>", "<a href=data:text/html,x>", "<a href=data:image/png,x>", "<unknown a=1>",
      "<a href=&#106;avascript:x>", "</a>", "<div>"]
tw.THEMES.setdefault("TX", TX)


def step(ctx, word):
    theme, container = ctx
    text = tw.text_of(theme, word)
    v = None
    try:
        j = None
        for kind, (walker, node, canon) in c11.build_all(text, container, True).items():
            if kind.endswith(":root"):
                continue
            j = judge_stream(c11.walk(walker, node))
            if j:
                break
        if j is not None:
            v = engine.Violation(H, {"kind": "word", "theme": theme, "container": container, "config": j[2]}, text, "allow-listed output", j[3], j[0], j[1])
        p, snap = drive.suspended_parse(text, builder="dom", container=container)
        final = tw.parse_dom(text, container)
        key = (drive.parser_key(p, snap), engine.digest(final))
        obs = engine.digest(final)
    except Exception as e:
        key, obs = ("crash", text), "crash"
    return (key, obs, v)


# ---- (b) URLs, (c) CSS ----------------------------------------------------------------------------------

URL = ["java", "script", ":", "\t", "\n", " ", "�", "\x01", "J", "//", "data", "image/png", "text/html", ",", ";base64", "http", "#", "\xa0",
       " ", "vb", "&amp;", "%", "x", "`", "\x00", "&#9;", "/", "?", "-", "+", "."]      # (+ - . are scheme characters: ms-its:, web+x:, x.y:)
CSS = ["url(", ")", "x", "color", ":", "red", ";", "expression(", "\\", "/*", "*/", "background", "u\\72l(", " ", "'", '"', "#fff", "-",
       "javascript:", "\\75rl(", "1px", "(", "@import"]


def uri_attrs():
    return sorted(URI_ATTRS, key=repr)


KEY_URI_ATTRS = [(None, "href"), (None, "src"), (XLINK_NS, "href")]


def _url_shard(args):
    first, L = args[:2]
    res = {"evals": 0, "viol": {}, "kept": 0}
    attrs = uri_attrs() if len(args) < 3 else args[2]
    for m in range(0, L):
        for rest in itertools.product(URL, repeat=m):
            val = first + "".join(rest)
            for key, elem, ns in [(k, "svg" if k[0] else "a", SVG_NS if k[0] else HTML_NS) for k in attrs] + \
                    ([(k, e, HTML_NS) for k, es in sorted(URI_ATTRS_ON.items()) for e in es] if len(args) < 3 else []):
                stream = [{"type": "StartTag", "name": elem, "namespace": ns, "data": OrderedDict([(key, val), ((None, "title"), "t")])},
                          {"type": "EndTag", "name": elem, "namespace": ns}]
                res["evals"] += 1
                j = judge_stream(stream)
                if j is not None and (j[1] not in res["viol"] or len(val) < len(res["viol"][j[1]][0])):
                    res["viol"][j[1]] = (val, key, j)
            try:
                if (None, "href") in sanitize([{"type": "StartTag", "name": "a", "namespace": HTML_NS, "data": OrderedDict([((None, "href"), val)])}], {})[0]["data"]:
                    res["kept"] += 1
            except Exception:
                pass
    return res


CSS_CORE = ["url(", ")", "x", ":", ";", "background", "\\", "/*", "*/", " ", "#fff", "expression(", "u\\72l("]


def _css_shard(args):
    first, L = args[:2]
    letters = CSS if len(args) < 3 else args[2]
    res = {"evals": 0, "viol": {}, "kept": 0}
    for m in range(0, L):
        for rest in itertools.product(letters, repeat=m):
            val = first + "".join(rest)
            stream = [{"type": "StartTag", "name": "p", "namespace": HTML_NS, "data": OrderedDict([((None, "style"), val)])},
                      {"type": "EndTag", "name": "p", "namespace": HTML_NS}]
            res["evals"] += 1
            j = judge_stream(stream)
            if j is not None and (j[1] not in res["viol"] or len(val) < len(res["viol"][j[1]][0])):
                res["viol"][j[1]] = (val, (None, "style"), j)
            try:
                if sanitize(stream, {})[0]["data"].get((None, "style")):
                    res["kept"] += 1
            except Exception:
                pass
    return res


def execute(config, case):
    if config.get("kind") == "word":
        for kind, (walker, node, canon) in c11.build_all(case, config.get("container"), True).items():
            if kind.endswith(":root"):
                continue
            j = judge_stream(c11.walk(walker, node))
            if j:
                return engine.Violation(H, config, case, "allow-listed output", j[3], j[0], j[1])
        return None
    key = tuple(config["attr"])
    key = (key[0], key[1])
    elem, ns = ("svg", SVG_NS) if key[0] else ("a", HTML_NS)
    if key == (None, "style"):
        elem, ns = "p", HTML_NS
    stream = [{"type": "StartTag", "name": elem, "namespace": ns, "data": OrderedDict([(key, case), ((None, "title"), "t")])},
              {"type": "EndTag", "name": elem, "namespace": ns}]
    j = judge_stream(stream)
    if j is None:
        return None
    return engine.Violation(H, config, case, "allow-listed output", j[3], j[0], j[1])


def replay(harness, config, case):
    return execute(config, case)


def run(run):
    quick = run.tier == "quick"
    only = os.environ.get("VERIF_PARTS", "a,b,c").split(",")
    classes = {}
    if "a" in only:
        depth = {"T1": 3, "T2": 3, "T5": 3, "T7": 3, "TX": 3} if quick else {"T1": 3, "T2": 3, "T3": 3, "T4": 3, "T5": 3, "T6": 3, "T7": 3, "TX": 4}
        tot_s = tot_t = 0
        obs = set()
        for theme, d in depth.items():
            for container in (None, "div"):
                dd = d if container is None else max(2, d - 1)
                res = engine.product_bfs(step, len(tw.THEMES[theme]), dd, ctx=(theme, container))
                tot_s += res.states
                tot_t += res.transitions
                obs |= res.obs
                for v in res.violations:
                    if v.diff_class not in classes or len(v.case) < len(classes[v.diff_class].case):
                        classes[v.diff_class] = v
        run.set("states", tot_s)
        run.set("transitions", tot_t)
        run.set("traces_validated_against_impl", tot_t)
        run.set("distinct_trees", len(obs))
    if "b" in only:
        # every URL attribute with all values of <= 3 letters; the thorough tier adds all values of 4 letters for the three
        # attributes that matter most (31^4 values x 20 attributes x 29 configurations would take hours)
        shards = [(a, 3) for a in URL] + [("", 1)]
        if not quick:
            shards += [(a + b, 3, KEY_URI_ATTRS) for a in URL for b in URL]
        for r in engine.pmap(_url_shard, shards, chunksize=1):
            run.add("url_evaluations", r["evals"])
            run.add("url_values_kept_by_default_config", r["kept"])
            for cls, (val, key, j) in r["viol"].items():
                if cls not in classes or len(val) < len(classes[cls].case):
                    classes[cls] = engine.Violation(H, {"kind": "url", "attr": list(key), "config": j[2]}, val, "allow-listed output", j[3], j[0], cls)
        run.sample({"attr": "href", "value": "java\tscript:x"})
    if "c" in only:
        # all style values of <= 4 letters; the thorough tier adds all values of 5 letters over the 13-letter core
        shards = [(a, 4) for a in CSS] + [("", 1)]
        if not quick:
            shards += [(a + b, 4, CSS_CORE) for a in CSS_CORE for b in CSS_CORE]
        for r in engine.pmap(_css_shard, shards, chunksize=1):
            run.add("css_evaluations", r["evals"])
            run.add("css_values_kept_by_default_config", r["kept"])
            for cls, (val, key, j) in r["viol"].items():
                if cls not in classes or len(val) < len(classes[cls].case):
                    classes[cls] = engine.Violation(H, {"kind": "css", "attr": [None, "style"], "config": j[2]}, val, "allow-listed output", j[3], j[0], cls)
        run.sample({"style": "background:url(x)"})
    for v in classes.values():
        run.violation(v)
    if "states" not in run.cov:
        run.set("states", 1)
        run.set("transitions", 1)
        run.set("traces_validated_against_impl", 1)
    run.set("allow_list_configurations", len(get_configs()))
    run.set("exhaustive", True)
    run.assumptions.append("ref/urlscheme.py is my model of a browser's scheme extraction (WHATWG URL standard), not a browser")
    return run.finish("model_checking")
