"""C17 - the whitespace filter changes nothing but whitespace.

PB: breadth-first search over walker-shaped (balanced-prefix) token streams; the product state is
(reference stack of open elements, "previous text ended in whitespace", every bool/int local of the real
filter's suspended generator frame: `preserve`, `after_space`, ...).  Every transition runs the real filter on the whole
stream.  Oracle = reference transducer (below) + pass-through + idempotence.
A second, flat pass over ARBITRARY (unbalanced) streams checks only the pass-through clauses.
"""
import copy
import itertools
import re

from mc import engine
from checks.alphabets import st, et, empty, chars, space, comment, doctype

H = "c17_ws"
WS = "\t\n\x0c\r "
WS_RUN = re.compile("[\t\n\x0c\r ]+")
PRESERVE = frozenset(["pre", "textarea", "style", "script", "xmp", "iframe", "noembed", "noframes", "noscript"])

OPEN_NAMES = ["div", "pre", "textarea", "script", "p", "style", "title"]
TEXTS = [chars("a"), space(" "), chars("a  b"), space("\n\t"), chars("a \x0c\r\n b"), chars(" "),
         chars("a   b"), space("  "), chars("a "), chars(" b"), space("\x0c"), space("\r")]
LETTERS = [("open", n) for n in OPEN_NAMES] + [("close", None)] + [("tok", t) for t in TEXTS] + \
          [("tok", empty("br")), ("tok", comment(" c  c ")), ("open", "pre+attr")]


def build(word):
    """word (tuple of letter indices) -> (token list, final ref stack) ; None if 'close' on empty stack"""
    toks, stack = [], []
    for i in word:
        kind, arg = LETTERS[i]
        if kind == "open":
            if arg == "pre+attr":
                toks.append(st("pre", {(None, "title"): "a  b"}))
                stack.append("pre")
            else:
                toks.append(st(arg))
                stack.append(arg)
        elif kind == "close":
            if not stack:
                return None
            toks.append(et(stack.pop()))
        else:
            toks.append(copy.deepcopy(arg))
    return toks, stack


def reference(tokens):
    """Expected output per the property: outside preserve elements each maximal whitespace run
    (taken over the concatenation of adjacent text tokens) becomes one space."""
    out = []
    depth_preserve = 0
    stack = []
    i = 0
    n = len(tokens)
    while i < n:
        t = tokens[i]
        ty = t["type"]
        if ty in ("Characters", "SpaceCharacters"):
            j = i
            while j < n and tokens[j]["type"] in ("Characters", "SpaceCharacters"):
                j += 1
            text = "".join(x["data"] for x in tokens[i:j])
            if depth_preserve:
                out.append(("text", text))
            else:
                out.append(("text", WS_RUN.sub(" ", text)))
            i = j
            continue
        if ty == "StartTag":
            stack.append(t["name"])
            if t["name"] in PRESERVE:
                depth_preserve += 1
        elif ty == "EndTag":
            if stack:
                nm = stack.pop()
                if nm in PRESERVE:
                    depth_preserve -= 1
        out.append(("tok", t))
        i += 1
    return out, tuple(stack)


def per_token_reference(tokens):
    out, pres, stack = [], 0, []
    for t in tokens:
        ty = t["type"]
        t2 = copy.deepcopy(t)
        if ty in ("Characters", "SpaceCharacters"):
            if not pres:
                t2["data"] = WS_RUN.sub(" ", t["data"])
        elif ty == "StartTag":
            stack.append(t["name"])
            pres += t["name"] in PRESERVE
        elif ty == "EndTag" and stack:
            pres -= stack.pop() in PRESERVE
        out.append(t2)
    return out


def merged(tokens):
    out = []
    for t in tokens:
        if t["type"] in ("Characters", "SpaceCharacters"):
            if out and out[-1][0] == "text":
                out[-1] = ("text", out[-1][1] + t["data"])
            else:
                out.append(("text", t["data"]))
        else:
            out.append(("tok", t))
    return out


def run_filter(tokens):
    from html5lib.filters.whitespace import Filter
    return list(Filter(copy.deepcopy(tokens)))


def judge(tokens):
    """-> None | (what, diff_class, actual)"""
    out = run_filter(tokens)
    if len(out) != len(tokens):
        return ("token count changed", "count", out)
    for a, b in zip(tokens, out):
        if a["type"] not in ("Characters", "SpaceCharacters"):
            if a != b:
                return ("non-text token altered", "nontext-altered", out)
        else:
            if b["type"] != a["type"]:
                return ("text token type changed", "type-changed", out)
            if WS_RUN.sub("", a["data"]) != WS_RUN.sub("", b["data"]):
                return ("non-whitespace characters changed", "nonws-changed", out)
    exp, _ = reference(tokens)
    got = merged(out)
    if got != exp:
        if out == per_token_reference(tokens):
            return ("a whitespace run that spans adjacent text tokens is not collapsed to one space",
                    "run-across-tokens", out)
        return ("text differs from the reference transducer", "text-differs", out)
    twice = run_filter(out)
    if twice != out:
        return ("filter is not idempotent", "not-idempotent", twice)
    return None


def impl_state(tokens):
    """The real filter's `preserve` after consuming all tokens, read from the suspended generator."""
    try:
        from html5lib.filters.whitespace import Filter

        def src():
            for t in copy.deepcopy(tokens):
                yield t
            while True:          # keep the filter's generator suspended inside its loop
                yield {"type": "Comment", "data": "sentinel"}
        it = iter(Filter(src()))
        for _ in range(len(tokens)):
            next(it)
        # every local of the suspended generator that carries state from one token to the next
        loc = it.gi_frame.f_locals
        return tuple(sorted((k, v) for k, v in loc.items() if isinstance(v, (bool, int)) and k != "self"))
    except Exception:
        return "unavailable"


def step(word):
    b = build(word)
    if b is None:
        return (("invalid",), "invalid", None)
    toks, stack = b
    j = judge(toks)
    v = None
    if j is not None:
        v = engine.Violation(H, {"mode": "balanced"}, list(word_repr(word)), "reference transducer output",
                             j[2], j[0], j[1])
    last_ws = bool(toks) and toks[-1]["type"] in ("Characters", "SpaceCharacters") and toks[-1]["data"][-1:] in WS \
        and toks[-1]["data"] != ""
    key = (tuple(stack), last_ws, impl_state(toks))
    out = run_filter(toks)
    return (key, engine.digest(out), v)


def word_repr(word):
    for i in word:
        kind, arg = LETTERS[i]
        if kind == "tok":
            yield {"tok": {k: v for k, v in arg.items() if k != "data" or not isinstance(v, dict)}}
        else:
            yield {kind: arg}


def tokens_from_case(case):
    toks, stack = [], []
    for l in case:
        if "open" in l:
            if l["open"] == "pre+attr":
                toks.append(st("pre", {(None, "title"): "a  b"}))
                stack.append("pre")
            else:
                toks.append(st(l["open"]))
                stack.append(l["open"])
        elif "close" in l:
            toks.append(et(stack.pop()))
        elif "tok" in l:
            t = dict(l["tok"])
            if t["type"] in ("StartTag", "EmptyTag") and "data" not in t:
                from collections import OrderedDict
                t["data"] = OrderedDict()
            toks.append(t)
    return toks


def char_tokens(cp):
    c = chr(cp)
    return [[chars("a" + c + c + "b")], [chars(c)], [chars(" " + c + " "), st("pre"), chars(c + c), et("pre")], [chars("a" + c), chars(c + "b")]]


def _char_shard(args):
    lo, hi = args
    n, viol = 0, {}
    for cp in range(lo, hi):
        if 0xD800 <= cp <= 0xDFFF:
            continue
        for k, toks in enumerate(char_tokens(cp)):
            n += 1
            j = judge(toks)
            if j is not None and ("chars:" + j[1]) not in viol:
                viol["chars:" + j[1]] = engine.Violation(H, {"mode": "chars"}, [{"codepoint": cp, "shape": k}], "reference transducer output",
                                                         j[2], j[0] + " (U+%04X)" % cp, "chars:" + j[1])
    return n, viol


_VOID = frozenset("area base br col embed hr img input link meta param source track wbr".split())


def name_tokens(name):
    if name in _VOID:
        return [chars("a  b"), st("pre"), empty(name), chars("c  d"), et("pre"), chars("e  f"), empty(name), chars(" g  h")]
    return [chars("a  b"), st(name), chars("c  d"), st("b"), chars(" \n x"), et("b"), et(name), chars("e  f")]


def execute(config, case):
    if config.get("mode") == "chars":
        j = judge(char_tokens(case[0]["codepoint"])[case[0]["shape"]])
        return None if j is None else engine.Violation(H, config, case, "reference", j[2], j[0], "chars:" + j[1])
    if config.get("mode") == "names":
        j = judge(name_tokens(case[0]["name"]))
        return None if j is None else engine.Violation(H, config, case, "reference", j[2], j[0], "names:" + j[1])
    toks = tokens_from_case(case)
    if config.get("mode") == "arbitrary":
        j = judge_passthrough(toks)
    else:
        j = judge(toks)
    if j is None:
        return None
    return engine.Violation(H, config, case, "reference", j[2], j[0], j[1])


def replay(harness, config, case):
    return execute(config, case)


# ---- arbitrary (unbalanced) streams: pass-through clauses only --------------------------------

ARB = [st("pre"), et("pre"), st("div"), et("div"), et("textarea"), st("script"), chars("a  b"), space("  "),
       chars("   "), comment("  "), empty("br"), doctype()]


def judge_passthrough(tokens):
    out = run_filter(tokens)
    if len(out) != len(tokens):
        return ("token count changed", "count", out)
    for a, b in zip(tokens, out):
        if a["type"] not in ("Characters", "SpaceCharacters"):
            if a != b:
                return ("non-text token altered", "nontext-altered", out)
        else:
            if b["type"] != a["type"]:
                return ("text token type changed", "type-changed", out)
            if WS_RUN.sub("", a["data"]) != WS_RUN.sub("", b["data"]):
                return ("non-whitespace characters changed", "nonws-changed", out)
            if len(b["data"]) > len(a["data"]):
                return ("text grew", "text-grew", out)
    if run_filter(out) != out:
        return ("filter is not idempotent", "not-idempotent", out)
    return None


def _arb_shard(first):
    n = _ARB_DEPTH
    res = {"evals": 0, "viol": {}}
    for m in range(0, n):
        for rest in itertools.product(range(len(ARB)), repeat=m):
            toks = [copy.deepcopy(ARB[i]) for i in (first,) + rest]
            res["evals"] += 1
            j = judge_passthrough(toks)
            if j is not None and j[1] not in res["viol"]:
                res["viol"][j[1]] = ([{"tok": t} for t in toks], j[0], j[2])
    return res


_ARB_DEPTH = 4


def run(run):
    global _ARB_DEPTH
    depth = 5 if run.tier == "quick" else 7
    _ARB_DEPTH = 4 if run.tier == "quick" else 5
    res = engine.product_bfs(step, len(LETTERS), depth, bisim_depth=max(0, depth - 2))
    run.set("states", res.states)
    run.set("transitions", res.transitions)
    run.set("traces_validated_against_impl", res.transitions)
    run.set("depth_completed", res.depth_completed)
    run.set("distinct_observations", len(res.obs))
    run.set("bisimulation_checks", res.bisim_checks)
    run.set("abstraction_unsound", res.bisim_failures)
    run.set("exhaustive", not res.capped)
    seen = {}
    for v in res.violations:
        if v.diff_class not in seen or len(v.case) < len(seen[v.diff_class].case):
            seen[v.diff_class] = v
    for v in seen.values():
        run.violation(v)
    # element-name sweep: which elements preserve whitespace is decided per name (two name tables in constants.py)
    from checks import treewords as tw
    nsweep = 0
    for name in tw.ALL_NAMES:
        toks = name_tokens(name)
        nsweep += 1
        j = judge(toks)
        if j is not None:
            seen.setdefault("names:" + j[1], engine.Violation(H, {"mode": "names"}, [{"name": name}], "reference transducer output", j[2], j[0], "names:" + j[1]))
    run.set("name_sweep_streams", nsweep)
    for k, v in seen.items():
        if k.startswith("names:"):
            run.violation(v)
    # character sweep: which characters are whitespace is decided per character: every BMP code point (and a few astral
    # ones) inside, at the ends of and alone in a text token
    nchar = 0
    for n, viol in engine.pmap(_char_shard, [(lo, min(lo + 4096, 0x10000)) for lo in range(0, 0x10000, 4096)] + [(0x1F600, 0x1F601), (0xE0020, 0xE0021)], chunksize=1):
        nchar += n
        for cls, v in viol.items():
            if cls not in seen:
                seen[cls] = v
                run.violation(v)
    run.set("character_sweep_streams", nchar)
    arb = {}
    for r in engine.pmap(_arb_shard, range(len(ARB)), chunksize=1):
        run.add("arbitrary_streams", r["evals"])
        for cls, (case, what, out) in r["viol"].items():
            arb.setdefault(cls, (case, what, out))
    for cls, (case, what, out) in arb.items():
        run.violation(engine.Violation(H, {"mode": "arbitrary"}, case, "pass-through", out, what, cls))
    run.set("alphabet", ["%s:%s" % (k, (a if not isinstance(a, dict) else a.get("data", a.get("name")))) for k, a in LETTERS])
    for w in [(1, 10, 7, 0, 9, 7), (0, 8, 9, 14), (2, 9, 7, 4, 11)]:
        run.sample(list(word_repr(w)))
    run.assumptions.append("text tokens are compared after concatenating adjacent text tokens (whitespace runs split across tokens count as one run, as the property's quantifier says)")
    return run.finish("model_checking")
