"""C18 - alphabetical-attributes filter only reorders, deterministically.

FE (flat bounded-exhaustive): every subset (<= K) of a pool of attribute keys that mixes None / string
namespaces and equal local names, in every insertion order, on StartTag and EmptyTag, alone and embedded
in every short stream of other tokens (so that state carried between tokens would be exposed).
Oracle: same (name, value) items as a multiset; order sorted by (namespace or "", local); identical
output for every permutation of the same set (when the sort key is unique); every other token identical
and in order.
"""
import copy
import itertools
from collections import OrderedDict

from mc import engine

H = "c18_alpha"
NS1, NS2 = "http://www.w3.org/1999/xlink", "http://www.w3.org/XML/1998/namespace"
POOL = [(None, "a"), (None, "b"), (None, "A"), (NS1, "a"), (NS2, "a"), (NS1, "b"), (None, "ab"),
        ("", "a")]

OTHERS = [
    {"type": "Characters", "data": "x"},
    {"type": "SpaceCharacters", "data": " "},
    {"type": "Comment", "data": "c"},
    {"type": "Doctype", "name": "html", "publicId": None, "systemId": None},
    {"type": "EndTag", "name": "p", "namespace": "http://www.w3.org/1999/xhtml"},
    {"type": "Entity", "name": "amp"},
    {"type": "StartTag", "name": "q", "namespace": None, "data": OrderedDict()},
]


def tag(kind, keys, vals):
    return {"type": kind, "name": "p", "namespace": "http://www.w3.org/1999/xhtml",
            "data": OrderedDict((k, vals[k]) for k in keys)}


def sort_key(k):
    return (k[0] or "", k[1])


def judge(stream):
    """Run the real filter on a copy of stream; return None or a description of the discrepancy."""
    from html5lib.filters.alphabeticalattributes import Filter
    given = copy.deepcopy(stream)
    out = list(Filter(copy.deepcopy(stream)))
    if len(out) != len(given):
        return "token count changed", out
    for g, o in zip(given, out):
        if g["type"] in ("StartTag", "EmptyTag"):
            if {k: v for k, v in o.items() if k != "data"} != {k: v for k, v in g.items() if k != "data"}:
                return "tag fields changed", out
            gi, oi = list(g["data"].items()), list(o["data"].items())
            if sorted(gi, key=repr) != sorted(oi, key=repr):
                return "attribute items changed", out
            keys = [sort_key(k) for k, _ in oi]
            if keys != sorted(keys):
                return "attributes not sorted by (namespace or '', local)", out
        else:
            if g != o:
                return "non-tag token altered", out
    return None


def execute(config, case):
    """case = list of token dicts (JSON form: attribute data as list of [[ns,local],value])."""
    stream = []
    for t in case:
        t = dict(t)
        if "data" in t and isinstance(t["data"], list):
            t["data"] = OrderedDict(((tuple(k) if isinstance(k, list) else k), v) for k, v in t["data"])
        stream.append(t)
    r = judge(stream)
    if r is None:
        return None
    return engine.Violation(H, config, case, "reordered attributes only", r[1], r[0], r[0])


def replay(harness, config, case):
    return execute(config, case)


def enc(stream):
    out = []
    for t in stream:
        t = dict(t)
        if "data" in t and isinstance(t["data"], dict):
            t["data"] = [[list(k), v] for k, v in t["data"].items()]
        out.append(t)
    return out


def _shard(args):
    kind, k, subset_index = args
    from html5lib.filters.alphabeticalattributes import Filter
    res = {"evals": 0, "viol": [], "distinct": set(), "samples": []}
    vals_variants = [{key: "v%d" % i for i, key in enumerate(POOL)}, {key: "same" for key in POOL}]
    subset = list(itertools.combinations(POOL, k))[subset_index]
    for vals in vals_variants:
        outputs = set()
        unique = len(set(sort_key(x) for x in subset)) == len(subset)
        for perm in itertools.permutations(subset):
            for pre, post in (CONTEXTS if k <= 4 else [((), ())]):      # (sets of 5-6 keys: all 120-720 orders, no context)
                stream = list(pre) + [tag(kind, perm, vals)] + list(post)
                res["evals"] += 1
                r = judge(stream)
                if r is not None:
                    res["viol"].append((enc(stream), r[0], enc(r[1])))
            o = list(Filter([tag(kind, perm, vals)]))
            outputs.add(repr([list(t["data"].items()) for t in o]))
            if len(res["samples"]) < 1 and len(perm) >= 3:
                res["samples"].append(enc([tag(kind, perm, vals)]))
        res["distinct"].add(repr(sorted(subset, key=repr)) + repr(sorted(vals.items(), key=repr)[:1]))
        if unique and len(outputs) > 1:
            stream = [tag(kind, subset, vals)]
            res["viol"].append((enc(stream), "result depends on incoming attribute order", sorted(outputs)))
    return res


CONTEXTS = [((), ())]


def run(run):
    global CONTEXTS
    K = 4 if run.tier == "quick" else 6
    ctx_len = 1      # (contexts of two tokens on both sides x 720 orders x 210 subsets would be 2e9 evaluations)
    # contexts: every sequence of <= ctx_len other tokens before and after (incl. another tag w/ attrs)
    others = OTHERS + [tag("StartTag", [(None, "b"), (None, "a")], {(None, "b"): "1", (None, "a"): "2"})]
    seqs = [()]
    for n in range(1, ctx_len + 1):
        seqs += list(itertools.product(others, repeat=n))
    CONTEXTS = [(a, b) for a in seqs for b in seqs] if run.tier == "thorough" else \
        [(a, b) for a in seqs for b in seqs]
    shards = []
    for kind in ("StartTag", "EmptyTag"):
        for k in range(0, K + 1):
            for i in range(len(list(itertools.combinations(POOL, k)))):
                shards.append((kind, k, i))
    distinct = set()
    for sh, res in zip(shards, engine.pmap(_shard, shards, chunksize=4)):
        run.add("evaluations", res["evals"])
        distinct |= res["distinct"]
        for s in res["samples"]:
            run.sample(s)
        for stream, what, out in res["viol"]:
            run.violation(engine.Violation(H, {}, stream, "reordered attributes only", out, what, what))
    # pass-through of arbitrary short streams of non-tag tokens (order and identity)
    n = 0
    for w in itertools.product(OTHERS, repeat=3):
        n += 1
        r = judge(list(w))
        if r is not None:
            run.violation(engine.Violation(H, {}, enc(list(w)), "unchanged", enc(r[1]), r[0], r[0]))
    run.add("evaluations", n)
    run.set("distinct_nontrivial", len([d for d in distinct]))
    run.set("rule", "all subsets (<=%d) of %d attribute keys (None/two namespaces/empty-string namespace, equal "
            "local names across namespaces, case variants) x all insertion orders x {distinct values, equal values} "
            "x StartTag/EmptyTag x all contexts of <=%d other tokens before and after; distinct = distinct "
            "(attribute set, value assignment); all 3-token streams of non-tag tokens for pass-through"
            % (K, len(POOL), ctx_len))
    run.set("exhaustive", True)
    run.set("max_subset", K)
    return run.finish("exploration")
