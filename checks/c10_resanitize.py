"""C10 - sanitized markup stays safe when it is parsed again.

Exploration: BFS over an mXSS-shaped alphabet (raw-text elements, foreign content, integration points,
tables, select, noscript, comments, CDATA; key = parser state + complete final tree).  Every explored input
is parsed (document and fragment), walked, sanitized (default allow-lists and a permissive custom one),
serialized (3 option sets) and parsed again as document / fragment with scripting off / on.
Oracle on the re-parsed tree (direct traversal): no comment; every element (namespace, name) on the
allow-list in force; every attribute allowed; URI attributes keep only allowed schemes
(ref/urlscheme.py); every element name occurs among the tags the sanitizer let through or is implied by
the parser (html, head, body, tbody, colgroup, tr).
"""
import os
import warnings

from mc import engine, drive, trees
from checks import treewords as tw, c09_sanitizer as c09
from checks.alphabets import HTML_NS, SVG_NS, MATHML_NS
from ref import urlscheme

H = "c10_resanitize"

MX = ["<svg>", "<math>", "<mtext>", "<mi>", "<mglyph>", "<annotation-xml encoding=text/html>", "<foreignObject>", "<desc>", "<title>",
      "<style>", "<script>", "<noscript>", "<textarea>", "<xmp>", "<iframe>", "<noembed>", "<noframes>", "<plaintext>", "<listing>",
      "<table>", "<select>", "<option>", "<p>", "</p>", "<a>", "<b>", "<br>", "</br>", "<img src=x onerror=1>", "<!--", "-->",
      "<![CDATA[", "]]>", "</style>", "</title>", "</svg>", "</math>", "x", "</textarea>", "<a href=javascript:x>", "</table>", "</select>",
      "&lt;img src=x onerror=1&gt;", "</noscript>", "</script>", "&lt;/textarea&gt;", "&lt;/title&gt;", "&lt;/style&gt;", "&lt;!--",
      "&lt;?"]
tw.THEMES.setdefault("MX", MX)
# attribute values whose character references are themselves escaped in the source: what the sanitizer judged
# (the decoded value) must be what the second parse decodes again, under every quoting decision of the serializer
MXA = ["<a href=", '<a href="', "javascript", ":", "&amp;colon;", "&amp;#58;", "&amp;", "colon;", "x", '">', ">", " ", "'",
       # allowed attributes whose VALUE contains what would be markup if the serializer left it unquoted
       '<a title="x onmouseover=1">', '<a title="x><img src=x onerror=1>">', "<a title='x\tstyle=y'>", '<a title="x`onmouseover=1">', "&lt;?", "&lt;!",
       "<noscript><a title='</noscript><img src=x onerror=1>'>",
       "<a href=javascript&amp;colon;x>", "<a href=java&amp;Tab;script&amp;#58;x title=&amp;quot;>"]      # (known finding noscript-reread: scripting-on readers)
tw.THEMES.setdefault("MXA", MXA)
MXC = ["<svg>", "<math>", "<mtext>", "<annotation-xml encoding=text/html>", "<foreignObject>", "<title>", "<style>", "<noscript>", "<textarea>",
       "<xmp>", "<table>", "<select>", "<p>", "</p>", "<a>", "<img src=x onerror=1>", "<!--", "-->", "</style>", "</svg>", "x",
       "&lt;img src=x onerror=1&gt;", "</noscript>", "&lt;/title&gt;"]
tw.THEMES.setdefault("MXC", MXC)

IMPLIED = frozenset(["html", "head", "body", "tbody", "colgroup", "tr"])
SER_OPTS = [{}, {"omit_optional_tags": False, "quote_attr_values": "always"},
            {"escape_rcdata": True, "minimize_boolean_attributes": False, "quote_attr_values": "spec"}]


def allow_configs():
    s = c09.san()
    permissive = s.allowed_elements | frozenset((HTML_NS, n) for n in ("style", "noscript", "xmp", "iframe", "title", "script", "noembed")) \
        | frozenset([(SVG_NS, "style"), (SVG_NS, "foreignObject"), (MATHML_NS, "annotation-xml")])
    # (the permissive list also keeps the attribute that makes annotation-xml an integration point)
    return [("default", {}), ("permissive", {"allowed_elements": permissive,
                                             "allowed_attributes": s.allowed_attributes | frozenset([(None, "encoding")])})]


def pipeline(text, container, kw, opts):
    """parse -> walk -> sanitize -> serialize  -> (output, emitted tag names)"""
    import html5lib
    from html5lib import serializer, treewalkers
    s = c09.san()
    p = html5lib.HTMLParser(tw.builder("dom"))
    tree = p.parse(text) if container is None else p.parseFragment(text, container=container)
    with warnings.catch_warnings():
        warnings.simplefilter("ignore")
        stream = list(s.Filter(treewalkers.getTreeWalker("dom")(tree), **kw))
    emitted = set(t["name"] for t in stream if t["type"] in ("StartTag", "EmptyTag", "EndTag"))
    out = serializer.HTMLSerializer(**opts).render(stream)
    canon = trees.canon_dom(tree)
    cause = ""
    if html_child_of_foreign(canon):
        cause = "html-child-of-foreign:"
    elif integration_point_escaped(canon, kw.get("allowed_elements", s.allowed_elements)):
        cause = "integration-point-escaped:"
    if not cause and noscript_reread(canon):
        cause = "?noscript-reread:"          # (applies to re-parses with scripting on only, see judge)
    return out, emitted, cause


def _is_integration_point(n):
    return (n[1] == SVG_NS and n[2] in ("foreignObject", "desc", "title")) or \
           (n[1] == MATHML_NS and n[2] in ("mi", "mo", "mn", "ms", "mtext")) or \
           (n[1] == MATHML_NS and n[2] == "annotation-xml" and
            dict((k[1], v.lower()) for k, v in n[3]).get("encoding") in ("text/html", "application/xhtml+xml"))


def noscript_reread(tree):
    """Does the FIRST tree (built with scripting off, so <noscript> has element children) contain an HTML noscript
    element with "</noscript" somewhere inside it - in the text of a raw-text / RCDATA descendant, in an attribute value
    or in a comment?  A reader with scripting ON takes the content of <noscript> as raw text that ends at the first
    "</noscript", so whatever follows that point in the serialized content is parsed as markup."""
    def inside(n):
        if n[0] in ("text", "comment"):
            return "</noscript" in n[1].lower()
        if n[0] != "elem":
            return False
        if any("</noscript" in v.lower() for _, v in n[3]):
            return True
        return any(inside(k) for k in n[4])
    stack = list(tree)
    while stack:
        n = stack.pop()
        if n[0] != "elem":
            continue
        if n[1] == HTML_NS and n[2] == "noscript" and any(inside(k) for k in n[4]):
            return True
        stack.extend(n[4])
    return False


def integration_point_escaped(tree, elements):
    """Does the FIRST tree contain HTML content inside an SVG/MathML integration point that the allow-list in
    force turns into text?  Its HTML children then sit directly in foreign content and re-parse as SVG/MathML
    elements of the same name."""
    stack = [(n, None) for n in tree]
    while stack:
        n, parent = stack.pop()
        if n[0] != "elem":
            continue
        if parent is not None and parent[1] in (SVG_NS, MATHML_NS) and _is_integration_point(parent) \
                and (parent[1], parent[2]) not in elements:
            return True
        stack.extend((k, n) for k in n[4])
    return False


def html_child_of_foreign(tree):
    """Does the FIRST tree contain an HTML element directly inside an SVG/MathML element that is not an
    integration point?  (June-2020 tree construction creates such nodes for </p> and </br> in foreign content;
    no serialization of them re-parses to the same place.)"""
    stack = [(n, None) for n in tree]
    while stack:
        n, parent = stack.pop()
        if n[0] != "elem":
            continue
        if n[1] == HTML_NS and parent is not None and parent[1] in (SVG_NS, MATHML_NS):
            if not _is_integration_point(parent):
                return True
        stack.extend((k, n) for k in n[4])
    return False


def check_tree(tree, kw, emitted, document_mode):
    s = c09.san()
    elements = kw.get("allowed_elements", s.allowed_elements)
    attributes = kw.get("allowed_attributes", s.allowed_attributes)
    protocols = kw.get("allowed_protocols", s.allowed_protocols)
    stack = list(tree)
    while stack:
        n = stack.pop()
        if n[0] == "comment":
            return ("a comment reappeared after re-parsing", "comment")
        if n[0] != "elem":
            continue
        ns, name, attrs, kids = n[1], n[2], n[3], n[4]
        structural = document_mode and ns == HTML_NS and name in ("html", "head", "body")
        if not structural and not ((ns, name) in elements):
            if not (ns == HTML_NS and name in IMPLIED and not attrs):
                return ("element <%s> (%s) in the re-parsed tree is not on the allow-list" % (name, "html" if ns == HTML_NS else ns.rsplit("/", 1)[-1]),
                        "element:%s" % name)
        if name not in emitted and not (name in IMPLIED):
            return ("element <%s> in the re-parsed tree corresponds to no tag the sanitizer let through" % name, "not-emitted:%s" % name)
        for key, val in attrs:
            if key not in attributes:
                return ("attribute %r reappeared" % (key,), "attribute")
            if c09.is_uri_attr(n[2], key):
                sch = urlscheme.scheme(val)
                if sch is not None and sch not in protocols:
                    return ("URI attribute %r has scheme %r after re-parsing" % (key, sch), "scheme")
        stack.extend(kids)
    return None


def judge(text):
    """-> None | (what, diff_class, config dict, actual)"""
    import html5lib
    for container in (None, "div"):
        for cname, kw in allow_configs():
            for oi, opts in enumerate(SER_OPTS):
                try:
                    out, emitted, hcf = pipeline(text, container, kw, opts)
                except Exception as e:
                    return ("pipeline raised %s: %s" % (type(e).__name__, str(e)[:80]), "raised:" + type(e).__name__,
                            {"container": container, "config": cname, "opts": oi}, None)
                for rmode in (None, "div"):
                    for scripting in (False, True):
                        p = html5lib.HTMLParser(tw.builder("dom"))
                        d = p.parse(out, scripting=scripting) if rmode is None else p.parseFragment(out, container=rmode, scripting=scripting)
                        t = trees.canon_dom(d)
                        r = check_tree(t, kw, emitted, rmode is None)
                        if r:
                            if hcf.startswith("?"):
                                hcf = hcf[1:] if scripting else ""
                            return (r[0], hcf + r[1].split(":")[0] + (":scripting" if scripting and not hcf else ""),
                                    {"container": container, "config": cname, "opts": oi, "reparse": rmode, "scripting": scripting},
                                    {"sanitized_markup": out, "reparsed": trees.pretty(t)})
    return None


def step(ctx, word):
    theme, = ctx
    text = tw.text_of(theme, word)
    v = None
    try:
        j = judge(text)
        if j is not None:
            v = engine.Violation(H, j[2], text, "a tree within the allow-lists", j[3], j[0], j[1])
        p, snap = drive.suspended_parse(text, builder="dom")
        final = tw.parse_dom(text)
        key = (drive.parser_key(p, snap), engine.digest(final))
        obs = engine.digest(final)
    except Exception as e:
        key, obs = ("crash", text), "crash"
        v = engine.Violation(H, {}, text, None, str(e)[:100], "harness raised %s" % type(e).__name__, "harness-raised")
    return (key, obs, v)


def execute(config, case):
    j = judge(case)
    if j is None:
        return None
    return engine.Violation(H, j[2], case, "a tree within the allow-lists", j[3], j[0], j[1])


def replay(harness, config, case):
    return execute(config, case)


def run(run):
    quick = run.tier == "quick"
    depth = 3 if quick else 4
    classes = {}
    # (49 letters: depth 4 over the whole alphabet is 5.7 M pipelines; the thorough tier explores depth 3 over the whole
    # alphabet and depth 4 over its 24-letter core, and the attribute theme to depth 5)
    res = engine.product_bfs(step, len(MX), 3, ctx=("MX",))
    if not quick:
        resc = engine.product_bfs(step, len(MXC), 4, ctx=("MXC",))
        res.states += resc.states
        res.transitions += resc.transitions
        res.obs |= resc.obs
        res.violations += resc.violations
    resa = engine.product_bfs(step, len(MXA), 3 if quick else 4, ctx=("MXA",))
    for v in res.violations + resa.violations:
        if v.diff_class not in classes or len(v.case) < len(classes[v.diff_class].case):
            classes[v.diff_class] = v
    res.states += resa.states
    res.transitions += resa.transitions
    res.obs |= resa.obs
    for v in classes.values():
        run.violation(v)
    run.set("states", res.states)
    run.set("transitions", res.transitions)
    run.set("traces_validated_against_impl", res.transitions)
    run.set("distinct_trees", len(res.obs))
    run.set("pipelines_per_input", 2 * 2 * len(SER_OPTS))
    run.set("reparses_per_input", 2 * 2 * len(SER_OPTS) * 4)
    run.set("depth_completed", res.depth_completed)
    run.set("alphabet", MX)
    run.set("attribute_alphabet", MXA)
    run.set("exhaustive", True)
    run.sample({"text": "<svg><style><img src=x onerror=1>"})
    run.sample({"text": "<math><mtext><table><mglyph><style><!--</style><img src=x onerror=1>"})
    return run.finish("model_checking")
