"""C13 - the optional-tags filter removes only tags HTML allows to be omitted.

(a) FE over the filter's complete decision domain: the filter looks at (previous, token, next) only, so
    ALL streams of length <= 3 over the STREAM alphabet cover every decision it can make; length-4 streams
    over a reduced alphabet expose state a changed filter might carry.
    Oracle: output is a subsequence (by object identity) of the input; tokens unchanged; each dropped token
    is allowed by ref/optional_tags.py (18 names, attribute-less start tags, HTML namespace, position rule).
(b) parse-equivalence on conforming documents: done with the C07 tree generator (see c07_roundtrip.conforming_docs).
"""
import copy
import itertools

from mc import engine
from ref import optional_tags as ref
from checks import alphabets

H = "c13_triples"
ALPHA = None
REDUCED = None


def tok_json(t):
    if t is None:
        return None
    t = dict(t)
    if "data" in t and isinstance(t["data"], dict):
        t["data"] = [[list(k), v] for k, v in t["data"].items()]
    return t


def tok_unjson(t):
    from collections import OrderedDict
    t = dict(t)
    if "data" in t and isinstance(t["data"], list):
        t["data"] = OrderedDict((tuple(k), v) for k, v in t["data"])
    return t


def judge(stream):
    """-> list of (what, diff_class, index) problems for one stream (real filter)."""
    from html5lib.filters.optionaltags import Filter
    given = [copy.copy(t) for t in stream]
    for g in given:
        if "data" in g and isinstance(g["data"], dict):
            g["data"] = copy.copy(g["data"])
    before = copy.deepcopy(given)
    out = list(Filter(given))
    problems = []
    j = 0
    dropped = []
    for i, t in enumerate(given):
        if j < len(out) and out[j] is t:
            j += 1
        else:
            dropped.append(i)
    if j != len(out):
        problems.append(("output is not a subsequence of the input (token added, duplicated or reordered)",
                         "not-subsequence", -1))
        return problems, out
    if given != before:
        problems.append(("a token was altered in place", "altered", -1))
    dset = set(dropped)
    for i in dropped:
        t = before[i]
        prev = before[i - 1] if i > 0 else None
        nxt = before[i + 1] if i + 1 < len(before) else None
        if t["type"] not in ("StartTag", "EndTag"):
            problems.append(("dropped a %s token" % t["type"], "dropped-" + t["type"], i))
            continue
        if t["name"] not in ref.OMISSIBLE:
            problems.append(("dropped %s of <%s>, not an omissible element" % (t["type"], t["name"]),
                             "dropped-name:%s:%s" % (t["type"], t["name"]), i))
            continue
        if not ref.may_omit(prev, t, nxt, (i - 1) in dset):
            nd = "-" if nxt is None else "%s:%s%s" % (nxt["type"], nxt.get("name", ""),
                                                     "" if ref.is_html(nxt) else "@foreign")
            cls = "position:%s:%s:next=%s" % (t["type"], t["name"], nd)
            if not ref.is_html(t):
                cls = "foreign:%s:%s" % (t["type"], t["name"])
            if t["type"] == "StartTag" and t.get("data"):
                cls = "start-with-attributes:%s" % t["name"]
            problems.append(("%s <%s> dropped where the syntax does not allow it (next=%s)" % (t["type"], t["name"], nd),
                             cls, i))
    return problems, out


def execute(config, case):
    stream = [tok_unjson(t) for t in case]
    problems, out = judge(stream)
    if not problems:
        return None
    what, cls, i = problems[0]
    return engine.Violation(H, config, case, "only omissible tags removed", [tok_json(t) for t in out], what, cls)


def replay(harness, config, case):
    if harness == "c13_equiv":
        from checks import c07_roundtrip as c07
        from mc import trees
        t0, _ = c07.parse_obj(case, "dom")
        a, _, _ = c07.render(t0, "dom", {"omit_optional_tags": True})
        b, _, _ = c07.render(t0, "dom", {"omit_optional_tags": False})
        ca, cb = c07.canon(c07.parse_obj(a, "dom")[0], "dom"), c07.canon(c07.parse_obj(b, "dom")[0], "dom")
        if ca == cb:
            return None
        return engine.Violation("c13_equiv", config, case, cb, ca, "omitting optional tags changed how the document parses",
                                "parse-equivalence:" + c07.diff_path(cb, ca))
    return execute(config, case)


def _shard(args):
    alpha_name, first, n = args
    A = ALPHA if alpha_name == "full" else REDUCED
    res = {"evals": 0, "viol": {}, "dropped": 0, "streams_with_drop": 0}
    rest_len = n - 1
    for rest in itertools.product(range(len(A)), repeat=rest_len):
        idx = (first,) + rest
        stream = [A[i] for i in idx]
        res["evals"] += 1
        problems, out = judge(stream)
        if len(out) != len(stream):
            res["streams_with_drop"] += 1
            res["dropped"] += len(stream) - len(out)
        for what, cls, i in problems:
            # keep the minimal witness: the window around the dropped token
            if cls not in res["viol"]:
                res["viol"][cls] = ([tok_json(t) for t in stream], what, [tok_json(t) for t in out])
    return res


def run(run):
    global ALPHA, REDUCED
    ALPHA = alphabets.stream_alphabet(run.tier)
    keep = ("html", "head", "body", "p", "li", "tbody", "colgroup", "tfoot", "h", "div", "a", "dd")
    REDUCED = [t for t in ALPHA if t.get("name") in keep and t.get("namespace") == alphabets.HTML_NS
               and not t.get("data")] + [alphabets.chars("x"), alphabets.space(" "), alphabets.comment()]
    shards = []
    for n in (1, 2, 3):
        for f in range(len(ALPHA)):
            shards.append(("full", f, n))
    deep = 4 if run.tier == "quick" else 5
    for f in range(len(REDUCED)):
        shards.append(("reduced", f, deep))
    classes = {}
    for sh, res in zip(shards, engine.pmap(_shard, shards, chunksize=1)):
        run.add("evaluations", res["evals"])
        run.add("streams_with_a_removed_token", res["streams_with_drop"])
        run.add("tokens_removed", res["dropped"])
        for cls, (stream, what, out) in res["viol"].items():
            if cls not in classes or len(stream) < len(classes[cls][0]):
                classes[cls] = (stream, what, out)
    # (a2) element-name sweep: every (omissible tag, neighbour) pair with the neighbour ranging over ALL element names of
    #      the standard (start, end and - for void names - empty tags), alone and after each end tag that matters as "previous"
    from checks import treewords as tw
    A = alphabets
    void = frozenset("area base br col embed hr img input link meta param source track wbr".split())
    sweep = []
    for name in tw.ALL_NAMES:
        nexts = [A.st(name), A.et(name)] + ([A.empty(name)] if name in void else [])
        for om in A.OMISSIBLE:
            for tok in (A.st(om), A.et(om)):
                for nxt in nexts:
                    sweep.append([tok, nxt])
                    if tok["type"] == "StartTag" and om in ("tbody", "colgroup"):
                        for pv in ("tbody", "thead", "tfoot", "colgroup"):
                            sweep.append([A.et(pv), tok, nxt])
    for st_ in sweep:
        run.add("evaluations")
        problems, out = judge(st_)
        for what, cls, i in problems:
            if cls not in classes or len(st_) < len(classes[cls][0]):
                classes[cls] = ([tok_json(t) for t in st_], what, [tok_json(t) for t in out])
    run.set("name_sweep_streams", len(sweep))
    for cls, (stream, what, out) in sorted(classes.items()):
        run.violation(engine.Violation(H, {}, stream, "only omissible tags removed", out, what, cls))
    # (b) parse-equivalence on generated conforming documents (shared generator with C07)
    from checks import c07_roundtrip as c07
    for r in engine.pmap(c07._equiv_shard, c07.equivalence_shards(run.tier), chunksize=1):
        run.add("conforming_documents_for_parse_equivalence", r["docs"])
        for cls, (text, filtered, cb, ca) in r["viol"].items():
            run.violation(engine.Violation("c13_equiv", {}, text, cb, {"filtered_output": filtered, "tree": ca},
                                           "omitting optional tags changed how the document parses", cls))
    for i in (5, 40, 77, 100, 120):
        run.sample([tok_json(ALPHA[i % len(ALPHA)]), tok_json(ALPHA[(i * 7) % len(ALPHA)]),
                    tok_json(ALPHA[(i * 13) % len(ALPHA)])])
    run.set("distinct_nontrivial", run.cov.get("streams_with_a_removed_token", 0))
    run.set("rule", "all token streams of length 1..3 over the %d-letter STREAM alphabet (the filter's complete "
            "(previous, token, next) decision domain) plus all streams of length %d over a %d-letter reduced alphabet; "
            "non-trivial = streams in which the filter removed at least one token" % (len(ALPHA), deep, len(REDUCED)))
    run.set("alphabet_size", len(ALPHA))
    run.set("exhaustive", True)
    return run.finish("exploration")
