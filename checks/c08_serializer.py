"""C08 - serializer output is lexically faithful or an error is reported.

(A) BFS over markup themes (+ an attribute theme and a text theme), key = (parser state, complete final
    tree) as in C11; every distinct tree is walked (etree and dom) and serialized with a reduced option set.
(B) flat exhaustive: hand-built one-element streams with ALL attribute values <= 3 over a 13-letter value
    alphabet (and all texts <= 3 in normal / RCDATA / raw-text / foreign contexts) x the FULL cross product of
    serializer options (1296 combinations, optional-tag omission off).
(C) flat exhaustive: hand-built DOCTYPE tokens with every public x system identifier of length <= 2 (3) over
    {a, ", ', >, space} (and absent).
(D) flat: every element name of the standard's tables (158 names), as HTML element and as SVG twin, with markup-like
    text inside and after it and with a quote in an attribute value, under the reduced option sets.
Oracle: serializer.errors non-empty (and strict=True raises SerializeError), or ref/retokenize.py reading
the output in place yields exactly the tags, attribute (qualified name, value) sets, text, comments and
doctype of the stream.  noscript is read with scripting off AND on; a divergence under either counts.
"""
import itertools
import os
from collections import OrderedDict

from mc import engine, drive, trees
from checks import treewords as tw, c11_walkers as c11
from checks.alphabets import HTML_NS, SVG_NS, MATHML_NS
from ref import retokenize as rr

H = "c08_serializer"

TA = ["<p a=", "<svg xlink:href=", "<input disabled=", "x", " ", '"', "'", "=", "<", ">", "`", "&amp;", "&lt;", "é", "\n", "/", "&#0;x",
      "disabled", " b=", "&quot;", "&#39;"]
TT = ["x", "<", ">", "&amp;", "&lt;", '"', "'", "-", "<!--", "-->", "<title>", "</title>", "<style>", "</style>", "<svg>", "</svg>",
      "<script>", "</script>", "<![CDATA[", "]]>", "<noscript>", "</noscript>", "<plaintext>", "<p>", "é", "\n", "<!-", "<!DOCTYPE a PUBLIC 'b\"c' \"d'e\">", "</", "&lt;b&gt;", "&amp;lt;", "&amp;amp;", "&amp;#65;", "<textarea>",
      "</textarea>", "&lt;/textarea&gt;", "&lt;/title&gt;", "&lt;?", "&lt;/x"]
tw.THEMES.setdefault("TA", TA)
tw.THEMES.setdefault("TT", TT)


def option_sets(full):
    base = {"omit_optional_tags": False, "inject_meta_charset": False}
    if not full:
        out = [
            {},
            {"quote_attr_values": "always", "quote_char": '"'},
            {"quote_attr_values": "spec", "quote_char": "'"},
            {"quote_attr_values": "spec"},
            {"use_trailing_solidus": True, "minimize_boolean_attributes": False},
            {"escape_lt_in_attrs": True, "alphabetical_attributes": True, "use_trailing_solidus": True, "space_before_trailing_solidus": False},
            {"_encoding": "ascii"},
            {"quote_attr_values": "always", "quote_char": "'", "_encoding": "utf-8"},
        ]
    else:
        out = []
        for qav, qc, mb, sol, lt, rc, al, enc in itertools.product(
                ("legacy", "spec", "always"), (None, '"', "'"), (True, False), ((False, True), (True, True), (True, False)),
                (False, True), (False, True), (False, True), (None, "utf-8", "ascii")):
            o = {"quote_attr_values": qav, "minimize_boolean_attributes": mb, "use_trailing_solidus": sol[0],
                 "space_before_trailing_solidus": sol[1], "escape_lt_in_attrs": lt, "escape_rcdata": rc, "alphabetical_attributes": al}
            if qc is not None:
                o["quote_char"] = qc
            if enc is not None:
                o["_encoding"] = enc
            out.append(o)
    res = []
    for o in out:
        d = dict(base)
        d.update(o)
        res.append(d)
    return res


REDUCED = option_sets(False)
FULL = None


def serialize(stream, opts):
    """-> (output text, errors list, strict_raised?)"""
    import copy
    from html5lib import serializer
    o = dict(opts)
    enc = o.pop("_encoding", None)
    s = serializer.HTMLSerializer(**o)
    out = s.render(copy.deepcopy(stream), enc)
    errors = list(s.errors)
    if enc:
        out = out.decode(enc)
    return out, errors


def strict_raises(stream, opts):
    import copy
    from html5lib import serializer
    o = dict(opts)
    enc = o.pop("_encoding", None)
    s = serializer.HTMLSerializer(**o)
    s.strict = True
    try:
        s.render(copy.deepcopy(stream), enc)
    except serializer.SerializeError:
        return True
    return False


def first_diff(exp, got):
    for i in range(max(len(exp), len(got))):
        a = exp[i] if i < len(exp) else None
        b = got[i] if i < len(got) else None
        if a != b:
            return i, a, b
    return None


def context_of(stream, exp, idx):
    """name of the innermost open element at expected-token index idx (for grouping)"""
    stack = []
    n = -1
    last = None
    for t in stream:
        ty = t["type"]
        if ty in ("StartTag", "EmptyTag", "EndTag", "Comment", "Doctype"):
            n += 1
            last = None
        elif ty in ("Characters", "SpaceCharacters"):
            if t["data"] == "":
                continue
            if last != "text":
                n += 1
            last = "text"
        if n >= idx:
            break
        if ty == "StartTag":
            stack.append((t["name"], t.get("namespace")))
        elif ty == "EndTag" and stack:
            stack.pop()
    if not stack:
        return "-"
    name, ns = stack[-1]
    return name if ns in (None, HTML_NS) else name + "@foreign"


def judge_stream(stream, opts):
    """-> None | (what, diff_class, expected, actual)"""
    try:
        out, errors = serialize(stream, opts)
    except UnicodeEncodeError:
        # the serializer's documented way of refusing markup the output encoding cannot express
        # (pinned by test_serializer.py::throwsWithLatin1): an error is reported, nothing is silently altered
        return None
    except Exception as e:
        return ("serializer raised %s: %s" % (type(e).__name__, str(e)[:80]), "raised:" + type(e).__name__, None, None)
    if errors:
        if not strict_raises(stream, opts):
            return ("errors recorded but strict mode did not raise SerializeError", "strict-silent", errors, None)
        return None
    exp = rr.expected_tokens(stream)
    for scripting in (False,):      # the explored trees are built with scripting off (see DESIGN corrections log)
        got = rr.read_back(out, stream, scripting)
        if got != exp:
            i, a, b = first_diff(exp, got)
            ctx = context_of(stream, exp, i)
            kind = (a or b)[0]
            detail = ""
            if a and b and a[0] == b[0] == "StartTag":
                kind = "StartTag.name" if a[1] != b[1] else "StartTag.attrs"
                if a[1] == b[1]:
                    an, bn = [x[0] for x in a[2]], [x[0] for x in b[2]]
                    detail = ":attr-names" if an != bn else ":attr-values"
            RAW = ("script", "style", "xmp", "iframe", "noembed", "noframes", "noscript")
            where = ctx if (ctx in RAW or ctx == "plaintext" or ctx in ("title", "textarea")) else ("foreign" if ctx.endswith("@foreign") else "normal")
            if ctx.endswith("@foreign") and ctx.split("@")[0] in RAW + ("title", "textarea"):
                where = ctx
            cls = "%s%s:in=%s" % (kind, detail, where)
            if opts.get("escape_rcdata") and ctx in RAW:
                cls = "escape_rcdata:" + cls
            elif opts.get("_encoding") and ctx in RAW and kind == "Character" and all(ord(ch) < 128 for ch in out):
                cls = "encoding-in-rawtext:" + cls
            if ctx == "script" and kind == "Character" and not opts.get("escape_rcdata") and "<!--" in (a[1] if a else ""):
                cls = "script-double-escape"
            if kind == "StartTag.attrs" and detail == ":attr-values" and opts.get("minimize_boolean_attributes", True) and a and b:
                da, db = dict(a[2]), dict(b[2])
                if all(da[k] == db[k] or db[k] == "" for k in da) and set(da) == set(db):
                    cls = "boolean-minimisation"
            if kind == "StartTag.attrs" and detail == ":attr-names" and a and b:
                if sorted(x[0].split(":")[-1] for x in a[2]) == sorted(x[0] for x in b[2]):
                    cls = "attribute-namespace-prefix-dropped"
            return ("output does not read back as the stream (scripting=%s): expected %r, read %r" % (scripting, a, b), cls,
                    {"output": out, "expected": exp[max(0, i - 1):i + 2]}, got[max(0, i - 1):i + 2])
    return None


def streams_of(text, container):
    out = []
    for ns in (True,):
        for kind, (walker, node, canon) in c11.build_all(text, container, ns).items():
            if kind.endswith(":root"):
                continue
            out.append((kind, c11.walk(walker, node)))
    return out


def judge_word(text, container):
    for kind, stream in streams_of(text, container):
        for opts in REDUCED:
            j = judge_stream(stream, opts)
            if j is not None:
                return j + (kind, opts)
    return None


def step(ctx, word):
    theme, container = ctx
    text = tw.text_of(theme, word)
    try:
        j = judge_word(text, container)
    except Exception as e:
        j = ("harness/tree building raised %s: %s" % (type(e).__name__, str(e)[:80]), "build-raised", None, None, "?", {})
    v = None
    if j is not None:
        v = engine.Violation(H, {"kind": "word", "theme": theme, "container": container, "walker": j[4], "opts": j[5]}, text, j[2], j[3], j[0], j[1])
    try:
        p, snap = drive.suspended_parse(text, builder="dom", container=container)
        final = tw.parse_dom(text, container)
        key = (drive.parser_key(p, snap), engine.digest(final))
        obs = engine.digest(final)
    except Exception:
        key, obs = ("crash", text), "crash"
    return (key, obs, v)


# ---- (B) hand-built streams x full option cross product ------------------------------------------------

# (É, U+00C9, is one of the characters whose named reference also exists in the legacy form without ';': written for an
# output encoding that lacks it, what FOLLOWS it decides how the reference is read back)
VAL = ["a", " ", '"', "'", "=", "<", ">", "`", "&", "é", "\n", "\t", "/", "É", ";",
       "&amp;", "&#65;", "&lt"]       # values that LOOK like character references (must be written so that they are not decoded)
TXT = ["x", "<", ">", "&", '"', "'", "-", "é", "\n", "]", "/", "!", "&lt;", "&amp;", "&#65;", "&copy", "É", ";", "?"]       # ("<?" and "<!" open bogus comments, "</" + letter an end tag)
TEXT_CTX = [("p", HTML_NS), ("title", HTML_NS), ("textarea", HTML_NS), ("style", HTML_NS), ("script", HTML_NS), ("xmp", HTML_NS),
            ("svg", SVG_NS), ("style", SVG_NS), ("title", SVG_NS), ("mi", MATHML_NS), ("pre", HTML_NS)]


def attr_stream(elem, ns, attrs):
    return [{"type": "StartTag", "name": elem, "namespace": ns, "data": OrderedDict(attrs)},
            {"type": "EndTag", "name": elem, "namespace": ns}]


def text_stream(elem, ns, text):
    return [{"type": "StartTag", "name": elem, "namespace": ns, "data": OrderedDict()},
            {"type": "Characters", "data": text},
            {"type": "EndTag", "name": elem, "namespace": ns}]


def _b_shard(args):
    kind, first, L = args
    global FULL
    if FULL is None:
        FULL = option_sets(True)
    res = {"evals": 0, "viol": {}, "streams": 0}
    alpha = VAL if kind == "attr" else TXT
    for m in range(0, L):
        for rest in itertools.product(alpha, repeat=m):
            s = first + "".join(rest)
            if kind == "attr":
                streams = [("attr", attr_stream("p", HTML_NS, [((None, "title"), s)])),
                           ("attr2", attr_stream("input", HTML_NS, [((None, "disabled"), s), ((None, "b"), s[::-1])]))]
                if m == 0:
                    streams.append(("attr-ns", attr_stream("svg", SVG_NS, [(("http://www.w3.org/1999/xlink", "href"), s), ((None, "a"), "1")])))
            else:
                streams = [("text:%s" % c[0], text_stream(c[0], c[1], s)) for c in TEXT_CTX]
            for name, st in streams:
                res["streams"] += 1
                for opts in FULL:
                    if kind != "attr" and (opts["quote_attr_values"] != "legacy" or "quote_char" in opts or not opts["minimize_boolean_attributes"]
                                           or opts["escape_lt_in_attrs"] or opts["alphabetical_attributes"]):
                        continue            # attribute options cannot matter for attribute-less streams
                    res["evals"] += 1
                    j = judge_stream(st, opts)
                    if j is not None and (j[1] not in res["viol"] or len(s) < len(res["viol"][j[1]][1])):
                        res["viol"][j[1]] = (name, s, st, opts, j)
    return res


# ---- (C) hand-built DOCTYPE tokens: every public / system identifier up to a length bound ----------------

DV = ["a", '"', "'", ">", " "]


def doctype_ids(L):
    out = [None]
    for m in range(0, L + 1):
        for w in itertools.product(DV, repeat=m):
            out.append("".join(w))
    return out


def _c_shard(args):
    pub, L = args
    res = {"evals": 0, "viol": {}, "streams": 0, "reported": 0}
    for sysid in doctype_ids(L):
        st = [{"type": "Doctype", "name": "html", "publicId": pub, "systemId": sysid},
              {"type": "StartTag", "name": "p", "namespace": HTML_NS, "data": OrderedDict()},
              {"type": "EndTag", "name": "p", "namespace": HTML_NS}]
        res["streams"] += 1
        for opts in ({"omit_optional_tags": False}, {"omit_optional_tags": False, "_encoding": "ascii", "quote_char": "'"}):
            res["evals"] += 1
            j = judge_stream(st, opts)
            try:
                if serialize(st, opts)[1]:
                    res["reported"] += 1
            except Exception:
                pass
            if j is not None:
                # name the class by which identifier carries which troublesome character
                cls = "doctype:" + j[1]
                size = len(pub or "") + len(sysid or "")
                if cls not in res["viol"] or size < res["viol"][cls][0]:
                    res["viol"][cls] = (size, st, opts, j)
    return res


# ---- (D) element-name sweep: every element name of the standard, HTML and SVG twin, with markup-like text and a quote

_VOID = frozenset("area base br col embed hr img input link meta param source track wbr".split())


def name_streams(name):
    out = []
    for ns in (HTML_NS, SVG_NS):
        if ns == HTML_NS and name in _VOID:
            out.append([{"type": "EmptyTag", "name": name, "namespace": ns, "data": OrderedDict([((None, "title"), 'a"b')])},
                        {"type": "Characters", "data": "x"}])
        else:
            out.append([{"type": "StartTag", "name": name, "namespace": ns, "data": OrderedDict()},
                        {"type": "Characters", "data": "<b>&amp;x"}, {"type": "EndTag", "name": name, "namespace": ns},
                        {"type": "Characters", "data": "<i>&lt;"}])
            out.append([{"type": "StartTag", "name": name, "namespace": ns, "data": OrderedDict([((None, "title"), 'a"b')])},
                        {"type": "EndTag", "name": name, "namespace": ns}])
    return out


def _d_shard(names):
    res = {"evals": 0, "viol": {}}
    for name in names:
        for st in name_streams(name):
            for opts in REDUCED + [{"omit_optional_tags": False, "escape_rcdata": True, "use_trailing_solidus": True}]:
                res["evals"] += 1
                j = judge_stream(st, opts)
                if j is not None and j[1] not in res["viol"]:
                    res["viol"][j[1]] = (name, st, opts, j)
    return res


def stream_json(st):
    return c11.jsonable_stream(st)


def stream_unjson(case):
    out = []
    for t in case:
        t = dict(t)
        if isinstance(t.get("data"), list):
            t["data"] = OrderedDict((tuple(k), v) for k, v in t["data"])
        out.append(t)
    return out


def execute(config, case):
    if config.get("kind") == "word":
        for kind, stream in streams_of(case, config.get("container")):
            if kind == config.get("walker"):
                j = judge_stream(stream, config["opts"])
                if j is not None:
                    return engine.Violation(H, config, case, j[2], j[3], j[0], j[1])
        return None
    j = judge_stream(stream_unjson(case), config["opts"])
    if j is None:
        return None
    return engine.Violation(H, config, case, j[2], j[3], j[0], j[1])


def replay(harness, config, case):
    return execute(config, case)


def run(run):
    quick = run.tier == "quick"
    only = os.environ.get("VERIF_PARTS", "A,B,C,D").split(",")
    classes = {}
    if "A" in only:
        depth = {"T1": 3, "T2": 3, "T3": 3, "T4": 3, "T5": 3, "T6": 3, "T7": 3, "TA": 4, "TT": 3} if quick else \
                {"T1": 4, "T2": 4, "T3": 4, "T4": 4, "T5": 4, "T6": 4, "T7": 4, "TA": 5, "TT": 4}
        tot_s = tot_t = 0
        obs = set()
        themes_only = os.environ.get("VERIF_THEMES")
        for theme, d in depth.items():
            if themes_only and theme not in themes_only.split(","):
                continue
            for container in (None, "div"):
                dd = d if container is None else max(2, d - 1)
                res = engine.product_bfs(step, len(tw.THEMES[theme]), dd, ctx=(theme, container))
                tot_s += res.states
                tot_t += res.transitions
                obs |= res.obs
                for v in res.violations:
                    if v.diff_class not in classes or len(v.case) < len(classes[v.diff_class].case):
                        classes[v.diff_class] = v
            run.sample({"theme": theme, "text": tw.text_of(theme, tuple(range(0, d)))})
        run.set("states", tot_s)
        run.set("transitions", tot_t)
        run.set("traces_validated_against_impl", tot_t)
        run.set("distinct_trees", len(obs))
        run.set("serializations_per_tree", 2 * len(REDUCED))
    if "B" in only:
        L = 2 if quick else 3
        shards = [("attr", a, L) for a in VAL] + [("attr", "", 1)] + [("text", a, L) for a in TXT] + [("text", "", 1)]
        for r in engine.pmap(_b_shard, shards, chunksize=1):
            run.add("full_option_serializations", r["evals"])
            run.add("handbuilt_streams", r["streams"])
            for cls, (name, s, st, opts, j) in r["viol"].items():
                if cls not in classes or True:
                    classes.setdefault(cls, engine.Violation(H, {"kind": "stream", "what": name, "opts": opts}, stream_json(st), j[2], j[3], j[0], cls))
        run.set("option_combinations", 1296)
    if "D" in only:
        names = tw.ALL_NAMES
        for r in engine.pmap(_d_shard, [names[i:i + 10] for i in range(0, len(names), 10)], chunksize=1):
            run.add("name_sweep_serializations", r["evals"])
            for cls, (name, st, opts, j) in r["viol"].items():
                classes.setdefault(cls, engine.Violation(H, {"kind": "stream", "what": "name:" + name, "opts": opts}, stream_json(st), j[2], j[3], j[0], cls))
    if "C" in only:
        L = 2 if quick else 3
        for r in engine.pmap(_c_shard, [(pub, L) for pub in doctype_ids(L)], chunksize=1):
            run.add("doctype_serializations", r["evals"])
            run.add("doctype_streams", r["streams"])
            run.add("doctype_serializations_with_reported_error", r["reported"])
            for cls, (size, st, opts, j) in r["viol"].items():
                if cls not in classes or size < classes[cls]._size:
                    classes[cls] = engine.Violation(H, {"kind": "stream", "what": "doctype", "opts": opts}, stream_json(st), j[2], j[3], j[0], cls)
                    classes[cls]._size = size
    for v in classes.values():
        run.violation(v)
    if "states" not in run.cov:
        run.set("states", 1)
        run.set("transitions", 1)
        run.set("traces_validated_against_impl", 1)
    run.set("exhaustive", True)
    return run.finish("model_checking")
