"""Generator of conforming HTML document trees from a conservative content-model grammar (only
productions I am sure are conforming), enumerated exhaustively by node budget.

A tree node is ("elem", name, attrs(tuple of (name, value)), children(tuple)) | ("text", s) | ("comment", s).
`markup(tree)` writes it fully tagged (every optional tag present) with my own writer, so the intended
tree and html5lib's parse of that markup can be compared before the serializer is involved.
"""
import itertools

VOID = frozenset("area base br col embed hr img input link meta param source track wbr".split())
RAW = frozenset(["script", "style"])
RCDATA = frozenset(["title", "textarea"])
NEWLINE_EATERS = frozenset(["pre", "textarea", "listing"])


def E(name, children=(), attrs=()):
    return ("elem", name, tuple(attrs), tuple(children))


def T(s):
    return ("text", s)


def C(s):
    return ("comment", s)


def esc_text(s):
    return s.replace("&", "&amp;").replace("<", "&lt;").replace(">", "&gt;")


def esc_attr(s):
    return s.replace("&", "&amp;").replace('"', "&quot;")


def markup(node):
    if node[0] == "text":
        return esc_text(node[1])
    if node[0] == "comment":
        return "<!--%s-->" % node[1]
    _, name, attrs, kids = node
    s = "<" + name + "".join(' %s="%s"' % (k, esc_attr(v)) for k, v in attrs) + ">"
    if name in VOID:
        return s
    if name in RAW:
        inner = "".join(k[1] for k in kids)
    else:
        inner = "".join(markup(k) for k in kids)
    if name in NEWLINE_EATERS:
        inner = "\n" + inner
    return s + inner + "</" + name + ">"


def document(head_kids, body_kids, html_attrs=(), body_attrs=(), doctype=True, after=()):
    html = E("html", (E("head", head_kids), E("body", body_kids, body_attrs)), html_attrs)
    return (("doctype", "html", "", ""),) * bool(doctype) + (html,) + tuple(after)


def doc_markup(doc):
    out = []
    for n in doc:
        if n[0] == "doctype":
            out.append("<!DOCTYPE html>")
        else:
            out.append(markup(n))
    return "".join(out)


def to_canon(doc):
    """generator tree -> the canonical form of mc/trees.py (HTML namespace, attrs ((None, name), value))"""
    from mc import trees

    def conv(n):
        if n[0] in ("text", "comment", "doctype"):
            return n
        return ("elem", trees.HTML_NS, n[1], tuple(((None, k), v) for k, v in n[2]), trees._merge([conv(k) for k in n[3]]))
    return trees._merge([conv(n) for n in doc])


# ---- bounded-exhaustive forests ---------------------------------------------------------------------

def forests(symbols, rules, budget, depth):
    """all sequences of nodes derivable from `symbols` (list of symbol names allowed at this level) using at most
    `budget` nodes and nesting depth `depth`.  rules[symbol] = ("leaf", node) | ("elem", name, attrs, child_symbols, min_children)
    Adjacent text leaves are not generated (they would merge)."""
    memo = {}

    def gen(syms, budget, depth):
        key = (syms, budget, depth)
        if key in memo:
            return memo[key]
        out = [()]
        if budget > 0:
            for s in syms:
                r = rules[s]
                if r[0] == "leaf":
                    firsts = [((r[1],), 1)]
                else:
                    _, name, attrs, child_syms, minc = r
                    firsts = []
                    if depth > 0 or not child_syms:
                        for kids in (gen(tuple(child_syms), budget - 1, depth - 1) if child_syms else [()]):
                            if len(kids) < minc:
                                continue
                            firsts.append(((E(name, kids, attrs),), 1 + size(kids)))
                for first, used in firsts:
                    for rest in gen(syms, budget - used, depth):
                        if rest and first[0][0] == "text" and rest[0][0] == "text":
                            continue
                        out.append(first + rest)
        memo[key] = out
        return out

    return gen(tuple(symbols), budget, depth)


def size(nodes):
    n = 0
    for x in nodes:
        n += 1
        if x[0] == "elem":
            n += size(x[3])
    return n


# ---- themes -----------------------------------------------------------------------------------------

def theme_forests(theme, budget):
    """-> list of (head_kids, body_kids) for one theme, all forests within the node budget"""
    title = E("title", (T("t"),))
    if theme == "G1":     # blocks and inline, nesting p / div / a / b
        rules = {
            "x": ("leaf", T("x")), "sp": ("leaf", T(" ")), "c": ("leaf", C("c")), "br": ("leaf", E("br")),
            "p": ("elem", "p", (), ("x", "sp", "b", "a", "br", "c"), 0),
            "div": ("elem", "div", (), ("x", "p", "div", "b", "a", "c"), 0),
            "b": ("elem", "b", (), ("x", "b", "br"), 0),
            "a": ("elem", "a", (("href", "u"),), ("x", "b"), 0),
        }
        return [((title,), f) for f in forests(("x", "sp", "p", "div", "b", "a", "c"), rules, budget, 3)]
    if theme == "G2":     # lists
        rules = {
            "x": ("leaf", T("x")), "sp": ("leaf", T(" ")), "c": ("leaf", C("c")),
            "ul": ("elem", "ul", (), ("li", "sp", "c"), 0),
            "li": ("elem", "li", (), ("x", "p", "ul", "sp"), 0),
            "p": ("elem", "p", (), ("x",), 0),
            "dl": ("elem", "dl", (), ("dt", "dd", "sp"), 0),
            "dt": ("elem", "dt", (), ("x",), 0),
            "dd": ("elem", "dd", (), ("x", "p"), 0),
        }
        return [((title,), f) for f in forests(("ul", "dl", "p", "x", "sp"), rules, budget, 3)]
    if theme == "G3":     # tables with every optional part
        rules = {
            "x": ("leaf", T("x")), "sp": ("leaf", T(" ")), "c": ("leaf", C("c")), "col": ("leaf", E("col")),
            "table": ("elem", "table", (), ("caption1", "colgroup", "thead1", "tbody", "tfoot1", "sp", "c"), 0),
            "caption1": ("elem", "caption", (), ("x",), 0),
            "colgroup": ("elem", "colgroup", (), ("col", "sp"), 0),
            "thead1": ("elem", "thead", (), ("tr",), 0),
            "tbody": ("elem", "tbody", (), ("tr", "sp"), 0),
            "tfoot1": ("elem", "tfoot", (), ("tr",), 0),
            "tr": ("elem", "tr", (), ("td", "th"), 0),
            "td": ("elem", "td", (), ("x", "p"), 0),
            "th": ("elem", "th", (), ("x",), 0),
            "p": ("elem", "p", (), ("x",), 0),
        }
        out = []
        for f in forests(("table", "p", "x"), rules, budget, 4):
            if ok_tables(f):
                out.append(((title,), f))
        return out
    if theme == "G4":     # select / ruby / pre / textarea
        rules = {
            "x": ("leaf", T("x")), "sp": ("leaf", T(" ")), "nl": ("leaf", T("\n")), "nlx": ("leaf", T("\nx")),
            "select": ("elem", "select", (), ("option", "optgroup", "sp"), 0),
            "optgroup": ("elem", "optgroup", (("label", "l"),), ("option", "sp"), 0),
            "option": ("elem", "option", (), ("x",), 0),
            "ruby": ("elem", "ruby", (), ("x", "rt", "rp"), 0),
            "rt": ("elem", "rt", (), ("x",), 0),
            "rp": ("elem", "rp", (), ("x",), 0),
            "pre": ("elem", "pre", (), ("x", "nl", "nlx"), 0),
            "textarea": ("elem", "textarea", (), ("x", "nl", "nlx"), 0),
            "p": ("elem", "p", (), ("x", "select", "ruby", "textarea"), 0),
        }
        return [((title,), f) for f in forests(("p", "pre", "select", "ruby", "textarea", "x"), rules, budget, 3)]
    if theme == "G5":     # head content and what body starts with
        hrules = {
            "title": ("leaf", title), "meta": ("leaf", E("meta", (), (("name", "a"), ("content", "b")))),
            "link": ("leaf", E("link", (), (("rel", "help"), ("href", "u")))), "sp": ("leaf", T(" ")), "c": ("leaf", C("c")),
            "script": ("elem", "script", (), ("js",), 0), "js": ("leaf", T("a<b&&c")), "style": ("elem", "style", (), ("css",), 0),
            "css": ("leaf", T("p>a{}")),
        }
        brules = {
            "x": ("leaf", T("x")), "sp": ("leaf", T(" ")), "c": ("leaf", C("c")), "p": ("elem", "p", (), ("x",), 0),
            "script": ("elem", "script", (), ("js",), 0), "js": ("leaf", T("1")), "style": ("elem", "style", (), ("css",), 0),
            "css": ("leaf", T("a{}")), "link": ("leaf", E("link", (), (("rel", "help"), ("href", "u"), ("itemprop", "i")))),
            "meta": ("leaf", E("meta", (), (("itemprop", "i"), ("content", "b")))),
        }
        heads = [h for h in forests(("title", "meta", "link", "script", "style", "sp", "c"), hrules, min(budget, 3), 1)
                 if sum(1 for n in h if n[0] == "elem" and n[1] == "title") == 1]
        bodies = forests(("x", "sp", "c", "p", "script", "style", "link", "meta"), brules, min(budget, 3), 1)
        return [(h, b) for h in heads for b in bodies]
    if theme == "G6":     # p as a child of the transparent / special parents before whose end tag </p> must be kept
        rules = {
            "x": ("leaf", T("x")), "sp": ("leaf", T(" ")),
            "p": ("elem", "p", (), ("x",), 0),
            "div": ("elem", "div", (), ("x", "ins", "del", "map", "a", "noscript", "video"), 0),
            "ins": ("elem", "ins", (), ("x", "p"), 0),
            "del": ("elem", "del", (), ("x", "p"), 0),
            "map": ("elem", "map", (("name", "m"),), ("x", "p"), 0),
            "a": ("elem", "a", (("href", "u"),), ("x", "p"), 0),
            "noscript": ("elem", "noscript", (), ("x", "p"), 0),
            "video": ("elem", "video", (("controls", ""),), ("x", "p"), 0),
        }
        return [((title,), f) for f in forests(("div", "x"), rules, budget, 3)]
    raise ValueError(theme)


def ok_tables(forest):
    """order constraints of the table content model: caption? colgroup* thead? tbody* tfoot? (whitespace / comments anywhere)"""
    order = {"caption": 0, "colgroup": 1, "thead": 2, "tbody": 3, "tfoot": 4}
    for n in forest:
        if n[0] == "elem":
            if n[1] == "table":
                last = -1
                seen = set()
                for k in n[3]:
                    if k[0] != "elem":
                        continue
                    o = order[k[1]]
                    if o < last:
                        return False
                    if k[1] in ("caption", "thead", "tfoot") and k[1] in seen:
                        return False
                    seen.add(k[1])
                    last = o
            if not ok_tables(n[3]):
                return False
    return True


THEMES = ["G1", "G2", "G3", "G4", "G5", "G6"]
