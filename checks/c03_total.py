"""C03 - parsing is total: any input yields a well-formed document skeleton.

(a) PB: BFS over markup-letter themes (document + fragment containers, scripting off/on); every word is parsed
    with etree and dom, namespacing on/off, as str and as UTF-8 bytes; invariants on every execution.
(b) byte soup: ALL byte strings of length <= L over 19 bytes, as bytes with three encoding hints.
(c) pump family: (l)^n and (l1 l2)^n for letters of the union alphabet with n above CPython's recursion limit,
    followed by each closer, optionally inside <div>/<table>/<svg>/<ruby>.
Oracle: no exception of any type; watchdog (5 s short inputs, 20 s long ones) not hit; for documents the skeleton
doctype? comment* html comment*, html = head then body|frameset (+ noframes after a frameset), no
non-whitespace text directly under html, no text at document level.
"""
import itertools
import os
import signal

from mc import engine, drive, trees
from checks import treewords as tw

H = "c03_total"
WS = " \t\n\x0c\r"


class Timeout(BaseException):
    pass


def guarded(fn, seconds=20):
    try:
        with engine.time_limit(seconds, Timeout):
            return ("ok", fn())
    except Timeout:
        return ("timeout", None)
    except RecursionError as e:
        return ("raised", "RecursionError")
    except Exception as e:
        return ("raised", "%s: %s" % (type(e).__name__, str(e)[:120]))


def skeleton_dom(doc):
    """shallow, non-recursive check of a minidom document -> None | problem string"""
    seen_html = 0
    seen_doctype = 0
    for c in doc.childNodes:
        t = c.nodeType
        if t == 10:
            seen_doctype += 1
            if seen_html:
                return "doctype after html"
        elif t == 8:
            pass
        elif t == 1:
            if c.tagName != "html":
                return "document child element <%s>" % c.tagName
            seen_html += 1
            p = _html_children([(k.nodeType == 1 and k.tagName) or (k.nodeType == 3 and ("#text", k.data)) or "#other"
                                for k in c.childNodes])
            if p:
                return p
        elif t == 3:
            return "text at document level"
        else:
            return "unexpected node type %d at document level" % t
    if seen_html != 1:
        return "%d html elements" % seen_html
    if seen_doctype > 1:
        return "%d doctypes" % seen_doctype
    return None


def _html_children(kids):
    elems = []
    for k in kids:
        if isinstance(k, tuple):
            if k[1].strip(WS):
                return "non-whitespace text directly under html"
        elif k and k != "#other":
            elems.append(k)
    if len(elems) < 2 or elems[0] != "head" or elems[1] not in ("body", "frameset"):
        return "html children are %r" % (elems[:4],)
    for extra in elems[2:]:
        if not (elems[1] == "frameset" and extra == "noframes"):
            return "html children are %r" % (elems[:5],)
    return None


def skeleton_etree(root, full, ns):
    """root: html element (root form) or DOCUMENT_ROOT (full form)"""
    def local(tag):
        if not isinstance(tag, str):
            return "#comment"
        return tag.split("}", 1)[1] if tag.startswith("{") else tag
    if full:
        if root.text and root.text.strip(WS) or False:
            return "text at document level"
        if root.text:
            return "text at document level"
        htmls = [c for c in root if local(c.tag) == "html"]
        for c in root:
            if c.tail:
                return "text at document level"
            if local(c.tag) not in ("html", "#comment", "<!DOCTYPE>"):
                return "document child element <%s>" % local(c.tag)
        if len(htmls) != 1:
            return "%d html elements" % len(htmls)
        root = htmls[0]
    if root is None or local(root.tag) != "html":
        return "root is not html"
    kids = []
    if root.text:
        kids.append(("#text", root.text))
    for c in root:
        n = local(c.tag)
        kids.append(n if n != "#comment" else "#other")
        if c.tail:
            kids.append(("#text", c.tail))
    return _html_children(kids)


CONFIGS = [("dom", True), ("dom", False), ("etree", True), ("etree", False), ("etree-full", True)]


def run_one(data, container, scripting, cfg, **kw):
    import html5lib
    name, ns = cfg
    tbn = "dom" if name == "dom" else "etree"
    tb = tw.builder(tbn, **({"fullTree": True} if name == "etree-full" else {}))
    p = html5lib.HTMLParser(tb, namespaceHTMLElements=ns)

    def go():
        if container is None:
            return p.parse(data, scripting=scripting, **kw)
        return p.parseFragment(data, container=container, scripting=scripting, **kw)
    # (short inputs parse in milliseconds: 5 s is already > 100x; long nesting pumps get the full 20 s)
    st, res = guarded(go, 20 if len(data) > 400 else 5)
    if st != "ok":
        return "%s:%s" % (st, res)
    if container is None:
        if name == "dom":
            return skeleton_dom(res)
        return skeleton_etree(res, name == "etree-full", ns)
    return None


def judge(text, container, scripting, as_bytes=True, configs=None):
    """-> None | (what, diff_class)"""
    for cfg in (configs or CONFIGS):
        r = run_one(text, container, scripting, cfg)
        if r:
            return ("%s ns=%s: %s" % (cfg[0], cfg[1], r), "%s:%s" % (cfg[0], r.split(":")[0] if r.startswith(("raised", "timeout")) else "skeleton"))
    if as_bytes:
        try:
            b = text.encode("utf-8")
        except UnicodeEncodeError:
            b = text.encode("utf-8", "surrogatepass")
        for cfg in CONFIGS[:1] + CONFIGS[2:3]:
            r = run_one(b, container, scripting, cfg)
            if r:
                return ("bytes %s ns=%s: %s" % (cfg[0], cfg[1], r), "bytes:%s" % (r.split(":")[0] if r.startswith(("raised", "timeout")) else "skeleton"))
    return None


LIGHT = [("dom", True), ("etree", True)]


def step(ctx, word):
    theme, container, scripting = ctx[:3]
    text = tw.text_of(theme, word)
    if len(ctx) > 3 and ctx[3] == "light":
        # one level deeper than the full-configuration search, two builder configurations, str input only
        j = judge(text, container, scripting, as_bytes=False, configs=LIGHT)
    else:
        j = judge(text, container, scripting)
    v = None
    if j is not None:
        v = engine.Violation(H, {"kind": "word", "theme": theme, "container": container, "scripting": scripting}, text,
                             "a tree with the document skeleton", j[0], j[0], j[1])
    if j is not None and j[1].endswith(":timeout"):
        # a parse that does not terminate has no state to continue from: all such words are one state
        return (("nontermination",), "nontermination", v)
    try:
        p, snap = drive.suspended_parse(text, builder="dom", container=container, scripting=scripting)
        key = drive.parser_key(p, snap)
    except Exception as e:
        key = ("crash", text)
    return (key, engine.digest((key, j)), v)


def execute(config, case):
    kind = config.get("kind")
    if kind == "word":
        j = judge(case, config.get("container"), config.get("scripting", False))
    elif kind == "soup":
        j = judge_soup(case, config.get("kw") or {})
    elif kind == "pump":
        j = judge(pump_text(case), config.get("container"), False, as_bytes=False, configs=PUMP_CONFIGS)
    else:
        raise ValueError(kind)
    if j is None:
        return None
    return engine.Violation(H, config, case, "a tree with the document skeleton", j[0], j[0], j[1])


def replay(harness, config, case):
    return execute(config, case)


def _names_shard(cases):
    out = []
    for text, cont, scr in cases:
        j = judge(text, cont, scr, as_bytes=False)
        out.append(None if j is None else engine.Violation(H, {"kind": "word", "theme": "NAMES", "container": cont, "scripting": scr}, text,
                                                           "a tree with the document skeleton", j[0], j[0], "names:" + j[1]))
    return out


# ---- (b) byte soup -----------------------------------------------------------------------------------

SOUP = [0x00, 0x0D, 0x0A, 0x3C, 0x61, 0x3E, 0x26, 0x23, 0x2F, 0x21, 0x2D, 0x80, 0xC3, 0xA9, 0xEF, 0xBB, 0xBF, 0xFE, 0xFF]
SOUP_KW = [{}, {"likely_encoding": "utf-8"}, {"transport_encoding": "utf-16le"}]


def judge_soup(data, kw):
    for cfg in (("dom", True), ("etree", True)):
        r = run_one(data, None, False, cfg, **kw)
        if r:
            return ("soup %s %r: %s" % (cfg[0], kw, r), "soup:%s" % (r.split(":")[0] if r.startswith(("raised", "timeout")) else "skeleton"))
    return None


def _soup_shard(args):
    prefix, L = args
    res = {"evals": 0, "viol": {}}
    for n in range(0, L - len(prefix) + 1):
        for rest in itertools.product(SOUP, repeat=n):
            data = bytes(prefix + rest)
            for kw in SOUP_KW:
                res["evals"] += 1
                j = judge_soup(data, kw)
                if j is not None and j[1] not in res["viol"]:
                    res["viol"][j[1]] = (data, kw, j)
    return res


# ---- (b2) declaration soup: byte words over encoding-declaration fragments (prescan, late <meta>, BOMs, labels with
#      non-ASCII or NUL bytes), with the *_encoding arguments that keep the encoding tentative or make it certain

META_SOUP = [b"<meta charset=", b"<meta http-equiv=content-type content='text/html; charset=", b"\xff", b"\xc3\xa9", b"utf-8", b"utf-16",
             b"'", b">", b"x", b"<!--" + b"x" * 1100 + b"-->", b"\x00", b"\xef\xbb\xbf", b" ", b"<p>", b"\xfe\xff", b";"]
META_KW = [{}, {"likely_encoding": "utf-8"}, {"transport_encoding": "utf-8"}, {"default_encoding": "koi8-r"}]


def _metasoup_shard(args):
    first, L = args
    res = {"evals": 0, "viol": {}}
    for n in range(0, L):
        for rest in itertools.product(META_SOUP, repeat=n):
            data = first + b"".join(rest)
            for kw in META_KW:
                res["evals"] += 1
                j = judge_soup(data, kw)
                if j is not None and (j[1] not in res["viol"] or len(data) < len(res["viol"][j[1]][0])):
                    res["viol"][j[1]] = (data, kw, j)
    return res


# ---- (c) pump family -----------------------------------------------------------------------------------

CLOSERS = ["", "</div>", "</p>", "<p>", "</table>", "<table>", "x", "</b>", "</body>", "</svg>", "<li>", "<td>", "</ruby>", "</a>"]
PREFIXES = ["", "<div>", "<table>", "<svg>", "<ruby>"]


PUMP_CONFIGS = [("dom", True), ("etree", True)]


def pump_text(case):
    prefix, unit, n, closer = case
    return prefix + unit * n + closer


def _pump_shard(args):
    prefix, unit, n, closers = args
    res = {"evals": 0, "viol": {}}
    for closer in closers:
        case = [prefix, unit, n, closer]
        res["evals"] += 1
        j = judge(pump_text(case), None, False, as_bytes=False, configs=PUMP_CONFIGS)
        if j is not None and j[1] not in res["viol"]:
            res["viol"][j[1]] = (case, j)
    return res


WITNESSES = ["<b><frameset></frameset></html> ", "<svg><select><foreignObject><table></table>", "<table><svg><html>",
             "<math><html><annotation-xml encoding='text/html'><select></select>",
             "&#" + "9" * 5000 + ";", "<p title='&#x" + "f" * 6000 + "'>", "&#" + "0" * 5000 + "65;"]


def run(run):
    quick = run.tier == "quick"
    only = os.environ.get("VERIF_PARTS", "word,soup,pump").split(",")
    classes = {}
    # (a)
    if "word" in only:
        depth = {"T1": 3, "T2": 3, "T3": 3, "T4": 3, "T5": 3, "T6": 3, "T7": 3, "TU": 2} if quick else \
                {"T1": 4, "T2": 4, "T3": 4, "T4": 4, "T5": 4, "T6": 4, "T7": 4, "TU": 3}
        tot_s = tot_t = bf = bc = 0
        obs = set()
        for theme, d in depth.items():
            cfgs = [(None, False), (None, True)]
            if theme == "TU":
                cfgs += [(c, False) for c in tw.CTX]
            else:
                cfgs += [(c, False) for c in {"T1": ["td"], "T2": ["table", "tr", "select"], "T3": ["select", "table"],
                                             "T4": ["html", "head", "frameset", "noscript"], "T5": ["div", "title"],
                                             "T6": ["p", "textarea"], "T7": ["script", "plaintext", "xmp"]}[theme]]
            for container, scripting in cfgs:
                dd = d if container is None else max(2, d - 1)
                res = engine.product_bfs(step, len(tw.THEMES[theme]), dd, bisim_depth=0, ctx=(theme, container, scripting))
                tot_s += res.states
                tot_t += res.transitions
                obs |= res.obs
                for v in res.violations:
                    if v.diff_class not in classes or len(v.case) < len(classes[v.diff_class].case):
                        classes[v.diff_class] = v
            if theme in ("T1", "T2", "T6"):
                # (the adoption agency, foster parenting and implied-end-tag machinery needs four tokens to get into its
                # rarer branches: one more level with two builder configurations)
                res = engine.product_bfs(step, len(tw.THEMES[theme]), d + 1, bisim_depth=0, ctx=(theme, None, False, "light"))
                tot_s += res.states
                tot_t += res.transitions
                obs |= res.obs
                for v in res.violations:
                    if v.diff_class not in classes or len(v.case) < len(classes[v.diff_class].case):
                        classes[v.diff_class] = v
            run.sample({"theme": theme, "text": tw.text_of(theme, tuple(range(3, 3 + d)))})
        run.set("states", tot_s)
        run.set("transitions", tot_t)
        run.set("traces_validated_against_impl", tot_t)
        run.set("parses_in_word_part", tot_t * 7)
        run.set("distinct_observations", len(obs))
    # (a2) every element name of the standard's tables: in structural templates, and as the fragment container
    if "word" in only:
        cases = tw.name_cases()
        texts = ["", "x", "<p>x", "</%s>y", "<%s>x", "<td>x</td>", "<option>x", "<frame>", "<!--c-->", "&amp;", "<svg><g>x", "<tr>", "</p>", "\x00"]
        for name in tw.ALL_NAMES + ["template", "HTML", "x-y", "svg:a"]:
            for t in texts:
                for scr in (False, True):
                    cases.append((t.replace("%s", name), name, scr))
        n = 0
        for vs in engine.pmap(_names_shard, [cases[i:i + 300] for i in range(0, len(cases), 300)], chunksize=1):
            for v in vs:
                n += 1
                if v is not None and (v.diff_class not in classes or len(v.case) < len(classes[v.diff_class].case)):
                    classes[v.diff_class] = v
        run.set("name_sweep_cases", n)
        run.add("transitions", n)
        run.add("traces_validated_against_impl", n)
    # (b)
    if "soup" in only:
        L = 4 if quick else 5
        shards = [((a, b), L) for a in SOUP for b in SOUP] + [((), 1)]
        for r in engine.pmap(_soup_shard, shards, chunksize=1):
            run.add("byte_soup_parses", r["evals"] * 2)
            for cls, (data, kw, j) in r["viol"].items():
                if cls not in classes:
                    classes[cls] = engine.Violation(H, {"kind": "soup", "kw": kw}, data, "a tree", j[0], j[0], cls)
        run.sample({"soup": bytes(SOUP[:4]).hex()})
    if "soup" in only:
        L = 4 if quick else 5
        for r in engine.pmap(_metasoup_shard, [(a, L) for a in META_SOUP], chunksize=1):
            run.add("declaration_soup_parses", r["evals"] * 2)
            for cls, (data, kw, j) in r["viol"].items():
                cls = "meta" + cls
                if cls not in classes or len(data) < len(classes[cls].case):
                    classes[cls] = engine.Violation(H, {"kind": "soup", "kw": kw}, data, "a tree", j[0], j[0], cls)
    # (c)
    if "pump" in only:
        n = 1100 if quick else 5000
        letters = [l for l in tw.TU if l.startswith("<") and not l.startswith("</") and not l.startswith("<!")] + ["x", "</p>", "</br>", "&amp;"]
        shards = []
        for l in letters:
            for pre in (PREFIXES if not quick else PREFIXES[:3]):
                shards.append((pre, l, n, CLOSERS))
        opens = [l for l in letters if l.startswith("<") and "/" not in l[:2]]
        # (all ordered pairs of ALL start tags at depth 2500 would be 137 k parses of very deep documents - hours; the
        # pairs are drawn from the 30 elements with their own handling of deep stacks in both tiers)
        pair_opens = [l for l in opens if l in (
            "<a>", "<b>", "<p>", "<div>", "<table>", "<td>", "<tr>", "<li>", "<dd>", "<rt>", "<ruby>", "<select>", "<option>", "<svg>", "<math>",
            "<mi>", "<button>", "<nobr>", "<form>", "<h1>", "<optgroup>", "<font>", "<applet>", "<caption>", "<tbody>", "<colgroup>",
            "<frameset>", "<desc>", "<rp>", "<foreignObject>")]
        for l1 in pair_opens:
            for l2 in pair_opens:
                if l1 != l2:
                    shards.append(("", l1 + l2, n // 2 + 1, ["", "</p>", "x"]))
        for r in engine.pmap(_pump_shard, shards, chunksize=1):
            run.add("pump_inputs", r["evals"])
            for cls, (case, j) in r["viol"].items():
                cls2 = "pump:" + cls
                if cls2 not in classes:
                    classes[cls2] = engine.Violation(H, {"kind": "pump", "container": None}, case, "a tree", j[0], j[0], cls2)
        run.set("pump_depth", n)
        run.sample({"pump": ["<div>", "<rt>", n, "</div>"]})
    # witness words outside the explored depth (reported by a sub-agent while seeding C03)
    for text in WITNESSES:
        run.add("witness_words")
        j = judge(text, None, False)
        if j is not None:
            classes["witness:" + j[1]] = engine.Violation(H, {"kind": "word", "theme": "witness", "container": None, "scripting": False}, text,
                                                          "a tree with the document skeleton", j[0], j[0], "witness:" + j[1])
    for v in classes.values():
        run.violation(v)
    if "states" not in run.cov:
        run.set("states", 1)
        run.set("transitions", 1)
        run.set("traces_validated_against_impl", 1)
    run.set("exhaustive", True)
    run.assumptions.append("termination is checked with a watchdog per parse (5 s for inputs up to 400 characters, 20 s above); nesting depth up to %d" % (1100 if quick else 5000))
    return run.finish("model_checking")
