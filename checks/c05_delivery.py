"""C05 - the result does not depend on how the input characters are delivered.

DB (deviation-bounded environment exploration): the harness owns every read() answer.
 A. text: every word <= L over the boundary-sensitive alphabet SEG x EVERY segmentation into reads
    (all 2^(n-1) compositions; with read sizes capped by the requested size this also covers every
    internal chunk size) + whole-input sources (str, StringIO) x _defaultChunkSize in {1,2,3,5}.
 B. text, multi-character tokens: words <= 3 over macro-letters x all placements of <= 2 cuts.
 C. bytes: words over SEG x every encoding label family of webencodings (declared certain via
    transport_encoding) x source kind {bytes, BytesIO, non-seekable short-read object} x every byte
    segmentation (short inputs) / <= 2 cuts (longer).
Oracle: (canonical dom tree, [(code, line, col)]) == that of the same characters given as one str at the
default chunk size.
"""
import io
import itertools
import os

from mc import engine, trees
from checks import treewords as tw

H = "c05_delivery"

SEG = ["a", "\r", "\n", "<", ">", "&", ";", "-", "!", "\ud83d", "\ude00", "😀", "é", "￾", "\x00", " "]
MACRO = ["<!--", "-->", "&amp;", "<!DOCTYPE html>", "</a", "<a b='c'>", "\r\n", "&#x41;", "x", "<![CDATA[", "]]>", "<svg>", "😀", "&notin;"]


class TextSource(object):
    """text file-like object answering read(n) with the next piece of the prescribed segmentation (never
    more than n characters)"""

    def __init__(self, text, cuts):
        self.pieces = []
        prev = 0
        for c in list(cuts) + [len(text)]:
            self.pieces.append(text[prev:c])
            prev = c
        self.pieces = [p for p in self.pieces if p != ""] if text else []
        self.i = 0
        self.off = 0

    def read(self, n=-1):
        if n == 0:
            return ""
        if self.i >= len(self.pieces):
            return ""
        p = self.pieces[self.i]
        if n is None or n < 0:
            n = len(p)
        out = p[self.off:self.off + n]
        self.off += len(out)
        if self.off >= len(p):
            self.i += 1
            self.off = 0
        return out


class ByteSource(object):
    """non-seekable byte source with prescribed short reads (no seek/tell -> html5lib wraps it in BufferedStream)"""

    def __init__(self, data, cuts):
        self.pieces = []
        prev = 0
        for c in list(cuts) + [len(data)]:
            if data[prev:c]:
                self.pieces.append(data[prev:c])
            prev = c
        self.i = 0
        self.off = 0

    def read(self, n=-1):
        if n == 0:
            return b""
        if self.i >= len(self.pieces):
            return b""
        p = self.pieces[self.i]
        if n is None or n < 0:
            n = len(p)
        out = p[self.off:self.off + n]
        self.off += len(out)
        if self.off >= len(p):
            self.i += 1
            self.off = 0
        return out


def observe(source, chunk=None, **kw):
    """parse with the dom builder -> (canonical tree, [(code, line, col)]) or ("raised", ...)"""
    import html5lib
    from html5lib import _inputstream
    cls = _inputstream.HTMLUnicodeInputStream
    old = cls._defaultChunkSize
    if chunk is not None:
        cls._defaultChunkSize = chunk
    try:
        p = html5lib.HTMLParser(tw.builder("dom"))
        try:
            d = p.parse(source, **kw)
        except Exception as e:
            return ("raised", "%s: %s" % (type(e).__name__, str(e)[:100]))
        return (trees.canon_dom(d), [(e[1], e[0][0], e[0][1]) for e in p.errors])
    finally:
        cls._defaultChunkSize = old


def diff_class(base, got, kind):
    if got[0] == "raised":
        return "%s:raised:%s" % (kind, got[1].split(":")[0])
    if base[0] != got[0]:
        return "%s:tree" % kind
    b, g = base[1], got[1]
    nb = [e for e in b if e[0] != "invalid-codepoint"]
    ng = [e for e in g if e[0] != "invalid-codepoint"]
    if nb == ng and len(b) == len(g):
        # same errors; only WHERE the stream-level invalid-codepoint reports are placed differs
        return "%s:invalid-codepoint-placement" % kind
    if [e[0] for e in b] != [e[0] for e in g]:
        if sorted(e[0] for e in b) == sorted(e[0] for e in g):
            return "%s:error-order" % kind
        return "%s:error-codes" % kind
    for x, y in zip(b, g):
        if x != y:
            return "%s:error-position:%s" % (kind, x[0])
    return "%s:?" % kind


def compositions(n, max_cuts=None):
    """all sets of cut positions in 1..n-1 (optionally with at most max_cuts cuts)"""
    pos = list(range(1, n))
    if max_cuts is None:
        for k in range(0, len(pos) + 1):
            for c in itertools.combinations(pos, k):
                yield c
    else:
        for k in range(0, min(max_cuts, len(pos)) + 1):
            for c in itertools.combinations(pos, k):
                yield c


def judge_text(text, max_cuts=None):
    """-> list of (config, what, diff_class, expected, actual) ; also returns number of executions"""
    base = observe(text)
    out = []
    n = 0
    for cuts in compositions(len(text), max_cuts):
        n += 1
        got = observe(TextSource(text, cuts))
        if got != base:
            out.append(({"kind": "text-reads", "cuts": list(cuts)}, "short reads %r change the result" % (list(cuts),),
                        diff_class(base, got, "reads"), base, got))
            break
    for chunk in (1, 2, 3, 5):
        for mk, name in ((lambda: text, "str"), (lambda: io.StringIO(text), "StringIO")):
            n += 1
            got = observe(mk(), chunk=chunk)
            if got != base:
                out.append(({"kind": "text-chunk", "chunk": chunk, "source": name}, "chunk size %d (%s) changes the result" % (chunk, name),
                            diff_class(base, got, "chunk"), base, got))
                break
    return out, n


ENCODINGS = None


def encodings():
    """one label per distinct encoding known to webencodings (replacement / x-user-defined excluded)"""
    global ENCODINGS
    if ENCODINGS is None:
        import webencodings
        names = sorted(set(webencodings.lookup(l).name for l in webencodings.LABELS))
        ENCODINGS = [n for n in names if n not in ("replacement", "x-user-defined", "utf-16le", "utf-16be")] + ["utf-16le", "utf-16be"]
    return ENCODINGS


def encodable(text, enc):
    import webencodings
    e = webencodings.lookup(enc)
    try:
        b = text.encode(e.codec_info.name)
        back = webencodings.decode(b, e)[0] if False else e.codec_info.decode(b)[0]
    except (UnicodeError, LookupError):
        return None
    if back != text:
        return None
    return b


BOMS = {"utf-8": b"\xef\xbb\xbf", "utf-16le": b"\xff\xfe", "utf-16be": b"\xfe\xff"}


def judge_bytes(text, enc, all_segmentations, via_bom=False):
    data = encodable(text, enc)
    if data is None:
        return [], 0
    import codecs
    for bom in (codecs.BOM_UTF8, codecs.BOM_UTF16_LE, codecs.BOM_UTF16_BE, codecs.BOM_UTF32_LE, codecs.BOM_UTF32_BE):
        if data.startswith(bom):
            return [], 0            # the bytes spell a byte-order mark: not "the same characters" any more
    base = observe(text)
    out = []
    n = 0
    kw = {"transport_encoding": enc}
    if via_bom:                     # the encoding is declared (as certain) by a byte-order mark instead
        data = BOMS[enc] + data
        kw = {}
    for mk, name in ((lambda: data, "bytes"), (lambda: io.BytesIO(data), "BytesIO")):
        for chunk in (None, 1, 3):
            n += 1
            got = observe(mk(), chunk=chunk, **kw)
            if got != base:
                out.append(({"kind": "bytes-whole", "source": name, "chunk": chunk, "encoding": enc, "bom": via_bom},
                            "%s in %s (chunk %s, bom=%s) differs from the str result" % (name, enc, chunk, via_bom), diff_class(base, got, "bytes"), base, got))
                break
    for cuts in compositions(len(data), None if all_segmentations else 2):
        n += 1
        got = observe(ByteSource(data, cuts), **kw)
        if got != base:
            out.append(({"kind": "bytes-reads", "cuts": list(cuts), "encoding": enc, "bom": via_bom},
                        "non-seekable byte reads %r in %s (bom=%s) change the result" % (list(cuts), enc, via_bom),
                        diff_class(base, got, "bytereads" + ("-bom" if via_bom else "")), base, got))
            break
    return out, n


def execute(config, case):
    kind = config["kind"]
    base = observe(case)
    if kind == "text-reads":
        got = observe(TextSource(case, config["cuts"]))
    elif kind == "text-chunk":
        got = observe(case if config["source"] == "str" else io.StringIO(case), chunk=config["chunk"])
    elif kind in ("bytes-whole", "bytes-reads"):
        data = encodable(case, config["encoding"])
        kw = {"transport_encoding": config["encoding"]}
        if config.get("bom"):
            data, kw = BOMS[config["encoding"]] + data, {}
        if kind == "bytes-whole":
            got = observe(data if config["source"] == "bytes" else io.BytesIO(data), chunk=config["chunk"], **kw)
        else:
            got = observe(ByteSource(data, config["cuts"]), **kw)
    else:
        raise ValueError(kind)
    if got == base:
        return None
    return engine.Violation(H, config, case, base, got, "delivery changes the result", diff_class(base, got, {
        "text-reads": "reads", "text-chunk": "chunk", "bytes-whole": "bytes",
        "bytes-reads": "bytereads" + ("-bom" if config.get("bom") else "")}[kind]))


def replay(harness, config, case):
    return execute(config, case)


def _shard_a(args):
    first, L = args
    res = {"inputs": 0, "execs": 0, "viol": {}}
    for m in range(0, L):
        for rest in itertools.product(SEG, repeat=m):
            text = first + "".join(rest)
            res["inputs"] += 1
            v, n = judge_text(text)
            res["execs"] += n
            for cfg, what, cls, b, g in v:
                if cls not in res["viol"] or len(text) < len(res["viol"][cls][1]):
                    res["viol"][cls] = (cfg, text, what, b, g)
    return res


def _shard_b(args):
    first, L = args
    res = {"inputs": 0, "execs": 0, "viol": {}}
    for m in range(0, L):
        for rest in itertools.product(MACRO, repeat=m):
            text = first + "".join(rest)
            res["inputs"] += 1
            v, n = judge_text(text, max_cuts=2)
            res["execs"] += n
            for cfg, what, cls, b, g in v:
                if cls not in res["viol"] or len(text) < len(res["viol"][cls][1]):
                    res["viol"][cls] = (cfg, text, what, b, g)
    return res


BYTE_LETTERS = ["a", "\r", "\n", "<", "&", "é", "😀", "\x00", "я", "日", "€", "-", ">"]


def _shard_c(args):
    enc, L = args
    res = {"inputs": 0, "execs": 0, "viol": {}}
    for m in range(1, L + 1):
        for w in itertools.product(BYTE_LETTERS, repeat=m):
            text = "".join(w)
            data = encodable(text, enc)
            if data is None:
                continue
            res["inputs"] += 1
            v, n = judge_bytes(text, enc, len(data) <= 7)
            if enc in BOMS:
                v2, n2 = judge_bytes(text, enc, len(data) <= 5, via_bom=True)
                v, n = v + v2, n + n2
            res["execs"] += n
            for cfg, what, cls, b, g in v:
                if cls not in res["viol"] or len(text) < len(res["viol"][cls][1]):
                    res["viol"][cls] = (cfg, text, what, b, g)
    return res


def run(run):
    quick = run.tier == "quick"
    only = os.environ.get("VERIF_PARTS", "A,B,C").split(",")
    classes = {}

    def absorb(r):
        run.add("states", r["inputs"])
        run.add("transitions", r["execs"])
        for cls, (cfg, text, what, b, g) in r["viol"].items():
            if cls not in classes or len(text) < len(classes[cls].case):
                classes[cls] = engine.Violation(H, cfg, text, b, g, what, cls)
    if "A" in only:
        L = 4 if quick else 5
        for r in engine.pmap(_shard_a, [(a + b, L - 1) for a in SEG for b in SEG] + [(a, 1) for a in SEG], chunksize=1):
            absorb(r)
        run.set("text_all_segmentations_up_to_length", L)
    if "B" in only:
        L = 3 if quick else 4
        for r in engine.pmap(_shard_b, [(a + b, L - 1) for a in MACRO for b in MACRO] + [(a, 1) for a in MACRO], chunksize=1):
            absorb(r)
        run.set("macro_words_up_to", L)
    if "C" in only:
        L = 2 if quick else 3
        for r in engine.pmap(_shard_c, [(e, L) for e in encodings()], chunksize=1):
            absorb(r)
        run.set("encodings", len(encodings()))
    for v in classes.values():
        run.violation(v)
    run.set("traces_validated_against_impl", run.cov.get("transitions", 0))
    run.sample({"text": "a\r\n<", "cuts": [2]})
    run.sample({"text": "<!--&amp;", "cuts": [3, 6]})
    run.sample({"text": "é😀", "encoding": "utf-8", "byte_cuts": [1, 3]})
    run.set("exhaustive", True)
    run.set("deviation_bound", "all segmentations for texts <= %d characters and byte strings <= 7 bytes; <= 2 cuts beyond" % (4 if quick else 5))
    run.assumptions.append("inputs whose encoded bytes begin with a byte-order mark are excluded (a BOM is not a character of the document)")
    return run.finish("model_checking")
