"""C07 - serialize then parse is the identity on conforming documents.   (Also hosts C13's parse-equivalence
clause and C16's "conforming documents record no errors" clause over the same generated documents.)

FE (bounded-exhaustive): all document trees generated from a conservative content-model grammar
(checks/conforming.py; five shape themes, every forest within a node budget) x shape-relevant option
sets x both walkers; plus a character theme (text / attribute values over a 13-letter alphabet, boolean
attributes) under the FULL cross product of serializer options.
Oracle: T0 = html5lib's parse of my fully-tagged markup of the generated tree, required to equal the
intended tree (otherwise the generator is at fault: counted and discarded); then
canonical(parse(render(walk(T0)))) == canonical(T0).
"""
import itertools
import os

from mc import engine, trees
from checks import conforming as cf, treewords as tw

H = "c07_roundtrip"

SHAPE_OPTS = [
    {"omit_optional_tags": True},
    {"omit_optional_tags": False},
    {"omit_optional_tags": True, "quote_attr_values": "always", "use_trailing_solidus": True},
    {"omit_optional_tags": True, "alphabetical_attributes": True, "minimize_boolean_attributes": False, "quote_attr_values": "spec"},
    {"omit_optional_tags": True, "_encoding": "utf-8"},
    {"omit_optional_tags": True, "_encoding": "ascii", "quote_char": "'"},
]


def full_options():
    out = []
    for qav, qc, om, mb, sol, lt, rc, al, enc in itertools.product(
            ("legacy", "spec", "always"), (None, '"', "'"), (True, False), (True, False), ((False, True), (True, True), (True, False)),
            (False, True), (False, True), (False, True), (None, "utf-8", "ascii")):
        o = {"quote_attr_values": qav, "omit_optional_tags": om, "minimize_boolean_attributes": mb, "use_trailing_solidus": sol[0],
             "space_before_trailing_solidus": sol[1], "escape_lt_in_attrs": lt, "escape_rcdata": rc, "alphabetical_attributes": al}
        if qc is not None:
            o["quote_char"] = qc
        if enc is not None:
            o["_encoding"] = enc
        out.append(o)
    return out


FULL = None


def render(tree_obj, walker, opts):
    from html5lib import serializer, treewalkers
    o = dict(opts)
    enc = o.pop("_encoding", None)
    o.setdefault("inject_meta_charset", False)
    s = serializer.HTMLSerializer(**o)
    out = s.render(treewalkers.getTreeWalker(walker)(tree_obj), enc)
    return out, enc, list(s.errors)


def parse_obj(data, builder, **kw):
    import html5lib
    p = html5lib.HTMLParser(tw.builder(builder, **({"fullTree": True} if builder == "etree" else {})))
    d = p.parse(data, **kw)
    return d, p.errors


def canon(obj, builder):
    return trees.sort_attrs(trees.canon_dom(obj) if builder == "dom" else trees.canon_etree(obj))


def judge_doc(doc, optsets, walkers=("dom", "etree")):
    """-> ("rejected", reason) | None | (what, diff_class, expected, actual, opts, walker)"""
    text = cf.doc_markup(doc)
    intended = trees.sort_attrs(cf.to_canon(doc))
    for w in walkers:
        t0, errs = parse_obj(text, w)
        c0 = canon(t0, w)
        if c0 != intended:
            return ("rejected", "generated tree is not what the markup parses to")
        if errs:
            return ("conforming-error", errs[0][1], text)
        for opts in optsets:
            try:
                out, enc, serr = render(t0, w, opts)
            except Exception as e:
                return ("serializer raised %s: %s" % (type(e).__name__, str(e)[:80]), "raised:" + type(e).__name__, None, None, opts, w)
            if serr:
                return ("serializer reported an error on a conforming document: %s" % serr[0], "serializer-error", None, serr, opts, w)
            kw = {"transport_encoding": enc} if enc else {}
            t1, _ = parse_obj(out, w, **kw)
            c1 = canon(t1, w)
            if c1 != c0:
                return ("re-parsed tree differs from the original", classify(c0, c1, opts, out), {"output": out if isinstance(out, str) else out.decode(enc), "tree": c0}, c1, opts, w)
    return None


def classify(c0, c1, opts, out):
    """coarse root-cause label for grouping"""
    d = diff_path(c0, c1)
    tag = d
    if opts.get("escape_rcdata") and d.startswith("text-in:") and d.split(":")[1] in ("script", "style"):
        return "escape_rcdata:" + d
    if opts.get("_encoding") and d.startswith("text-in:") and d.split(":")[1] in ("script", "style"):
        return "encoding-in-rawtext:" + d
    if opts.get("omit_optional_tags"):
        tag = "omit:" + d
    return tag


def diff_path(a, b):
    """description of the first structural difference between two canonical forests"""
    def walk(x, y, parent):
        if x == y:
            return None
        if len(x) != len(y):
            # which element kinds are involved
            nx = [n[2] if n[0] == "elem" else n[0] for n in x]
            ny = [n[2] if n[0] == "elem" else n[0] for n in y]
            return "children-of:%s:%s->%s" % (parent, ",".join(nx)[:40], ",".join(ny)[:40])
        for n, m in zip(x, y):
            if n == m:
                continue
            if n[0] != m[0]:
                return "kind-in:%s" % parent
            if n[0] == "text":
                return "text-in:%s" % parent
            if n[0] == "elem":
                if n[1:3] != m[1:3]:
                    return "name-in:%s" % parent
                if n[3] != m[3]:
                    ka, kb = dict(n[3]), dict(m[3])
                    if set(ka) == set(kb):
                        k = [k for k in ka if ka[k] != kb[k]][0]
                        if kb[k] == "" and k[1] in ("disabled", "checked", "selected", "multiple"):
                            return "boolean-attr-value"
                        return "attr-value"
                    return "attr-set"
                return walk(n[4], m[4], n[2])
            return "%s-in:%s" % (n[0], parent)
        return "?"
    return walk(a, b, "#document") or "?"


def _shape_shard(args):
    theme, budget, lo, hi = args
    items = cf.theme_forests(theme, budget)[lo:hi]
    res = {"docs": 0, "rejected": 0, "evals": 0, "viol": {}, "conf_err": {}, "distinct": 0}
    for head, body in items:
        doc = cf.document(head, body)
        res["docs"] += 1
        j = judge_doc(doc, SHAPE_OPTS)
        if j is None:
            res["evals"] += len(SHAPE_OPTS) * 2
            res["distinct"] += 1
            continue
        if j[0] == "rejected":
            res["rejected"] += 1
            continue
        if j[0] == "conforming-error":
            res["conf_err"].setdefault(j[1], j[2])
            continue
        res["distinct"] += 1
        text = cf.doc_markup(doc)
        if j[1] not in res["viol"] or len(text) < len(res["viol"][j[1]][0]):
            res["viol"][j[1]] = (text, j)
    return res


CH = ["x", " ", "<", ">", "&", '"', "'", "=", "-", "é", "😀", "\n", "`", "&amp;", "É"]     # (É: its entity also has a legacy form without ';')


def char_docs(maxlen):
    """documents exercising text and attribute-value characters and boolean attributes"""
    title = cf.E("title", (cf.T("t"),))
    for n in range(0, maxlen + 1):
        for w in itertools.product(CH, repeat=n):
            s = "".join(w)
            if s:
                yield cf.document((title,), (cf.E("p", (cf.T(s),)),))
                yield cf.document((cf.E("title", (cf.T(s),)),), (cf.E("textarea", (cf.T("x" + s),)),))
            yield cf.document((title,), (cf.E("p", (), (("title", s), ("lang", s[::-1]))),))
            yield cf.document((title,), (cf.E("img", (), (("alt", s), ("src", "u"))), cf.E("input", (), (("value", s),))))
    for val in ("", "disabled"):
        yield cf.document((title,), (cf.E("input", (), (("disabled", val), ("value", "a"))),))
        yield cf.document((title,), (cf.E("select", (cf.E("option", (cf.T("x"),), (("selected", val),)),)),))


def _char_shard(args):
    global FULL
    lo, hi, maxlen, full = args
    if FULL is None:
        FULL = full_options()
    docs = list(char_docs(maxlen))[lo:hi]
    res = {"docs": 0, "rejected": 0, "evals": 0, "viol": {}, "conf_err": {}, "distinct": 0}
    for doc in docs:
        res["docs"] += 1
        j = judge_doc(doc, FULL if full else SHAPE_OPTS, walkers=("dom",) if full else ("dom", "etree"))
        if j is None:
            res["evals"] += len(FULL) if full else len(SHAPE_OPTS) * 2
            res["distinct"] += 1
            continue
        if j[0] == "rejected":
            res["rejected"] += 1
            continue
        if j[0] == "conforming-error":
            res["conf_err"].setdefault(j[1], j[2])
            continue
        res["distinct"] += 1
        text = cf.doc_markup(doc)
        if j[1] not in res["viol"] or len(text) < len(res["viol"][j[1]][0]):
            res["viol"][j[1]] = (text, j)
    return res


def execute(config, case):
    import html5lib
    w = config["walker"]
    t0, _ = parse_obj(case, w)
    c0 = canon(t0, w)
    out, enc, serr = render(t0, w, config["opts"])
    kw = {"transport_encoding": enc} if enc else {}
    t1, _ = parse_obj(out, w, **kw)
    c1 = canon(t1, w)
    if c1 == c0 and not serr:
        return None
    return engine.Violation(H, config, case, {"output": out if isinstance(out, str) else out.decode(enc), "tree": c0}, c1,
                            "re-parsed tree differs from the original", classify(c0, c1, config["opts"], out))


def replay(harness, config, case):
    return execute(config, case)


def _equiv_shard(args):
    """C13 (b): parse(render(filtered)) == parse(render(unfiltered)); C16: conforming documents record no parse errors"""
    theme, budget, lo, hi = args
    items = cf.theme_forests(theme, budget)[lo:hi]
    res = {"docs": 0, "viol": {}, "conf_err": {}}
    for head, body in items:
        doc = cf.document(head, body)
        text = cf.doc_markup(doc)
        res["docs"] += 1
        t0, errs = parse_obj(text, "dom")
        if errs:
            res["conf_err"].setdefault(errs[0][1], text)
        if canon(t0, "dom") != trees.sort_attrs(cf.to_canon(doc)):
            continue
        a, _, _ = render(t0, "dom", {"omit_optional_tags": True})
        b, _, _ = render(t0, "dom", {"omit_optional_tags": False})
        ca, cb = canon(parse_obj(a, "dom")[0], "dom"), canon(parse_obj(b, "dom")[0], "dom")
        if ca != cb:
            cls = "parse-equivalence:" + diff_path(cb, ca)
            if cls not in res["viol"] or len(text) < len(res["viol"][cls][0]):
                res["viol"][cls] = (text, a, cb, ca)
    return res


def equivalence_shards(tier):
    shards = []
    for theme, b in budgets(tier).items():
        n = len(cf.theme_forests(theme, b))
        shards += [(theme, b, lo, min(lo + 500, n)) for lo in range(0, n, 500)]
    return shards


def budgets(tier):
    return {"G1": 5, "G2": 5, "G3": 5, "G4": 4, "G5": 2, "G6": 5} if tier == "quick" else {"G1": 6, "G2": 6, "G3": 6, "G4": 6, "G5": 3, "G6": 6}


def run(run):
    quick = run.tier == "quick"
    only = os.environ.get("VERIF_PARTS", "shape,char").split(",")
    classes = {}
    conf_err = {}

    def absorb(r):
        run.add("documents_generated", r["docs"])
        run.add("generator_rejects", r["rejected"])
        run.add("evaluations", r["evals"])
        run.add("distinct_nontrivial", r["distinct"])
        for cls, (text, j) in r["viol"].items():
            if cls not in classes or len(text) < len(classes[cls].case):
                classes[cls] = engine.Violation(H, {"opts": j[4], "walker": j[5]}, text, j[2], j[3], j[0], cls)
        for code, text in r["conf_err"].items():
            conf_err.setdefault(code, text)
    if "shape" in only:
        shards = []
        for theme, b in budgets(run.tier).items():
            n = len(cf.theme_forests(theme, b))
            step = 400
            shards += [(theme, b, lo, min(lo + step, n)) for lo in range(0, n, step)]
        for r in engine.pmap(_shape_shard, shards, chunksize=1):
            absorb(r)
    if "char" in only:
        n = len(list(char_docs(1)))
        for r in engine.pmap(_char_shard, [(lo, lo + 2, 1, True) for lo in range(0, n, 2)], chunksize=1):
            absorb(r)
        n2 = len(list(char_docs(2 if quick else 3)))
        for r in engine.pmap(_char_shard, [(lo, min(lo + 200, n2), 2 if quick else 3, False) for lo in range(0, n2, 200)], chunksize=1):
            absorb(r)
        run.set("full_option_cross_product", 2592)
    for v in classes.values():
        run.violation(v)
    for code, text in conf_err.items():
        run.notes.append("generated document records parse error %s: %s" % (code, text[:120]))
    run.set("conforming_documents_with_parse_errors", len(conf_err))
    run.sample({"markup": cf.doc_markup(cf.document((cf.E("title", (cf.T("t"),)),), (cf.E("ul", (cf.E("li", (cf.T("x"),)), cf.T(" "), cf.E("li"))),)))})
    run.set("rule", "all forests within the node budget %r of five content-model themes (blocks/inline, lists, tables with every optional part, "
            "select/ruby/pre/textarea, head content x body starts) x 6 option sets x 2 walkers; character documents (text / attribute values <=%d over 14 "
            "letters, boolean attributes) x the full cross product of 2592 option combinations for strings <=1 and 6 option sets beyond; "
            "distinct_nontrivial = distinct generated documents that passed the generator self-check (intended tree == parsed tree)" % (
                budgets(run.tier), 2 if quick else 3))
    run.set("exhaustive", True)
    return run.finish("exploration")
