"""C12 - parser objects are reusable: no state leaks between parses.

 (a) histories (PB): BFS over sequences of operations on ONE shared HTMLParser per builder (parse /
     parseFragment of residue-seeking documents, strict-mode aborts); state key = structural digest of the
     parser object graph after the history (exact-equality pruning only).  Same for a shared HTMLSerializer.
 (b) fault sequences (DB): every document aborted at EVERY read position (source whose i-th one-character
     read raises) followed by every operation; also read-abort + strict-abort + operation.
 (c) schedules (TS): two real threads with independent parser objects under a settrace baton scheduler;
     all schedules with <= 1 preemption at call granularity (every function call in html5lib is a
     scheduling point), <= 2 preemptions at the calls that touch module-level mutable state.
 (d) factory histories (FE): all sequences of <= 2 (3) calls of the module-level factories and convenience
     functions (getTreeBuilder / getTreeWalker with every keyword form, parse, parseFragment, serialize), each history in
     its own fresh interpreter; every call must return what it returns as the first call of an interpreter.
Oracle: every call's (tree, errors, exception type) equals that of the same call on a brand-new object in
a FRESH interpreter (baselines computed once in a subprocess, so process-wide caches are cold).
"""
import io
import json
import os
import subprocess
import sys
import threading

from mc import engine, trees
from checks import treewords as tw

H = "c12_reuse"

MANY = "".join("<u%d>" % i for i in range(140)) + "x" + "".join("</u%d>" % i for i in range(139, -1, -1))
LATE_META = b"<!--" + b"x" * 1100 + b"--><meta charset=koi8-r><p>\xd1\xcf"

# (kind, data, container)
OPS = [
    ("doc", "<table>SECRET&x", None), ("doc", "<pre>\nx", None), ("doc", "<textarea>\nx", None), ("doc", "<title>a", None),
    ("doc", "<select><option>x", None), ("doc", "<svg><a>x", None), ("doc", "<p><b>x", None), ("doc", "<frameset>", None),
    ("doc", "<html a=1><body b=2>x", None), ("doc", LATE_META, None), ("doc", "<!DOCTYPE html>x", None), ("doc", "</p>", None),
    ("doc", "<math><mi>x", None), ("doc", "<script><!--x", None), ("doc", MANY, None), ("doc", "\nx", None), ("doc", "", None),
    ("doc", "<table><tr><td>x", None), ("doc", "<!--c-->", None), ("doc", "<b><p>x</b>y", None),
    ("frag", "<td>x", "tr"), ("frag", "\nx", "textarea"), ("frag", "<b>x", "select"), ("frag", "\nx", "pre"), ("frag", "x</title>y", "title"),
    ("frag", "<p>x", "div"), ("frag", "<tr><td>x", "table"),
    ("doc", "<!DOCTYPE html><table>SECRET&x", None), ("doc", "<!DOCTYPE html><pre>&x", None), ("doc", "<!DOCTYPE html><textarea>&x</textarea>\ny</b>", None),
    ("doc", "<!DOCTYPE html><p>\nz", None), ("doc", "<!DOCTYPE html><table>public", None),
]
ABORTABLE = [0, 1, 2, 3, 4, 6, 9, 13, 17, 19, 20, 21, 27, 28, 29]      # indices of OPS used for aborted calls


def data_of(op):
    d = op[1]
    return d


def call(parser, op, strict=False, raise_at=None):
    """perform one operation on `parser` -> observation tuple"""
    from html5lib import html5parser
    kind, data, container = op
    parser.strict = strict
    src = data
    if raise_at is not None:
        src = RaisingSource(data, raise_at)
    try:
        if kind == "doc":
            d = parser.parse(src)
        else:
            d = parser.parseFragment(src, container=container)
    except html5parser.ParseError as e:
        return ("ParseError", str(e))
    except Boom:
        return ("Boom",)
    except Exception as e:
        return ("raised", type(e).__name__, str(e)[:80])
    finally:
        parser.strict = False
    canon = trees.canon_dom(d) if BUILDER == "dom" else trees.canon_etree(d)
    return ("ok", engine.digest(canon), [(e[1], e[0][0], e[0][1]) for e in parser.errors], parser.documentEncoding)


BUILDER = "dom"


class Boom(Exception):
    pass


class RaisingSource(object):
    """delivers the data one unit per read and raises Boom instead of answering the i-th read"""

    def __init__(self, data, raise_at):
        self.data = data
        self.i = 0
        self.raise_at = raise_at
        self.empty = data[:0]

    def read(self, n=-1):
        if n == 0:
            return self.empty
        if self.i >= self.raise_at:
            raise Boom()
        out = self.data[self.i:self.i + 1]
        self.i += 1
        return out


def new_parser():
    import html5lib
    return html5lib.HTMLParser(tw.builder(BUILDER, **({"fullTree": True} if BUILDER == "etree" else {})))


# ---- baselines from a fresh interpreter -----------------------------------------------------------------

_BASE = {}


def compute_baselines():
    """each (builder, op) evaluated on a brand-new parser in a brand-new interpreter"""
    code = r'''
import sys, json
sys.path.insert(0, %r); sys.path.insert(0, %r)
from mc import engine; engine.use_repo()
from checks import c12_reuse as c
out = {}
for b in ("dom", "etree"):
    c.BUILDER = b
    for i, op in enumerate(c.OPS):
        out["%%s:%%d" %% (b, i)] = c.call(c.new_parser(), op)
print(json.dumps(out))
''' % (engine.VERIF_DIR, engine.REPO)
    env = dict(os.environ)
    env["PYTHONHASHSEED"] = "0"
    r = subprocess.run([sys.executable, "-c", code], capture_output=True, text=True, env=env, timeout=300)
    if r.returncode != 0:
        raise RuntimeError("baseline subprocess failed: " + r.stderr[-500:])
    base = json.loads(r.stdout.strip().splitlines()[-1])
    # a second fresh interpreter with another hash seed must agree ("a function of the input alone")
    env["PYTHONHASHSEED"] = "12345"
    r2 = subprocess.run([sys.executable, "-c", code], capture_output=True, text=True, env=env, timeout=300)
    base2 = json.loads(r2.stdout.strip().splitlines()[-1])
    return base, base2


def norm(obs):
    return json.loads(json.dumps(obs))


# ---- structural digest of a parser (state key; never part of the verdict) ---------------------------------

def parser_digest(p):
    try:
        out = []
        for name in sorted(p.phases):
            ph = p.phases[name]
            entry = [name]
            for cls in type(ph).__mro__:
                for slot in getattr(cls, "__slots__", ()):
                    if slot in ("parser", "tree"):
                        continue
                    attr = slot if not slot.startswith("__") else "_%s%s" % (cls.__name__, slot)
                    v = getattr(ph, attr, None)
                    if isinstance(v, dict):
                        entry.append((slot, tuple(v.keys())))
                    elif isinstance(v, list):
                        entry.append((slot, len(v), repr(v)[:200]))
                    elif callable(v):
                        entry.append((slot, getattr(v, "__name__", "?")))
                    else:
                        entry.append((slot, type(v).__name__ if hasattr(v, "parser") else repr(v)[:50]))
            out.append(tuple(entry))
        t = p.tree
        out.append(("tree", len(t.openElements), len(t.activeFormattingElements), t.headPointer is None, t.formPointer is None,
                    getattr(t, "insertFromTable", None), getattr(t.insertElement, "__name__", "?")))
        out.append(("parser", type(p.phase).__name__ if hasattr(p, "phase") else None, getattr(p, "compatMode", None),
                    getattr(p, "framesetOK", None), getattr(p, "innerHTML", None), len(getattr(p, "errors", [])), p.strict,
                    type(getattr(p, "originalPhase", None)).__name__))
        return engine.digest(out)
    except Exception as e:
        return "unavailable:%s" % type(e).__name__


# ---- (a) histories ---------------------------------------------------------------------------------------

def letters():
    L = [("op", i) for i in range(len(OPS))]
    L += [("strict", i) for i in ABORTABLE]
    return L


def run_history(builder, word, extra_first=None):
    """-> (violation | None, digest)"""
    global BUILDER
    BUILDER = builder
    L = letters()
    p = new_parser()
    hist = []
    if extra_first is not None:
        opi, pos = extra_first
        o = call(p, OPS[opi], raise_at=pos)
        hist.append({"abort_read": [opi, pos], "result": o[0]})
    for li in word:
        kind, opi = L[li]
        if kind == "op":
            o = norm(call(p, OPS[opi]))
            hist.append({"op": opi})
            exp = _BASE["%s:%d" % (builder, opi)]
            if o != exp:
                what = "reused parser differs from a fresh one on %r after history %r" % (describe(OPS[opi]), hist[:-1])
                return (engine.Violation(H, {"kind": "history", "builder": builder}, hist, exp, o, what, classify(exp, o)), parser_digest(p))
        else:
            o = call(p, OPS[opi], strict=True)
            hist.append({"strict": opi, "result": o[0]})
            if o[0] == "raised":
                return (engine.Violation(H, {"kind": "history", "builder": builder}, hist, "ParseError or a tree", o,
                                         "strict-mode call raised %s" % o[1], "strict-raised:" + o[1]), parser_digest(p))
    return (None, parser_digest(p))


def describe(op):
    d = op[1]
    if isinstance(d, bytes):
        d = "<%d bytes>" % len(d)
    elif len(d) > 40:
        d = d[:37] + "..."
    return (op[0], d, op[2])


def classify(exp, got):
    if got[0] != "ok":
        return "call-failed:%s" % got[0]
    if exp[0] != "ok":
        return "baseline-not-ok"
    if exp[1] != got[1]:
        return "tree-differs"
    if exp[2] != got[2]:
        return "errors-differ"
    return "encoding-differs"


def step(ctx, word):
    builder, = ctx
    v, dig = run_history(builder, word)
    return (dig, dig, v)


def _abort_shard(args):
    builder, opi = args
    global BUILDER
    BUILDER = builder
    res = {"evals": 0, "viol": {}}
    op = OPS[opi]
    n = len(op[1])
    L = letters()
    strict_letters = [i for i, l in enumerate(L) if l[0] == "strict"][:4]
    for pos in range(0, min(n, 40) + 1):
        for follow in range(len(OPS)):
            res["evals"] += 1
            v, _ = run_history(builder, (follow,), extra_first=(opi, pos))
            if v is not None and v.diff_class not in res["viol"]:
                res["viol"][v.diff_class] = v
            for s in strict_letters:
                res["evals"] += 1
                v, _ = run_history(builder, (s, follow), extra_first=(opi, pos))
                if v is not None and v.diff_class not in res["viol"]:
                    res["viol"][v.diff_class] = v
    return res


# ---- shared serializer / walker objects ----------------------------------------------------------------------

SER_DOCS = ["<p>x", "<pre>\nx</pre>", "<script>a<b</script>", "<!--a--b-->", "<p title=é>é", "<table><tr><td>x", "<plaintext>x"]


def serializer_histories(depth):
    """all sequences (<= depth) of render calls on ONE HTMLSerializer; each result must equal a fresh serializer's"""
    import itertools
    import html5lib
    from html5lib import serializer, treewalkers
    calls = []
    for d in SER_DOCS:
        for enc in (None, "ascii"):
            for strict in (False, True):
                calls.append((d, enc, strict))
    tree_cache = {d: html5lib.parse(d, treebuilder="dom") for d in SER_DOCS}

    def one(s, c):
        d, enc, strict = c
        s.strict = strict
        try:
            out = s.render(treewalkers.getTreeWalker("dom")(tree_cache[d]), enc)
            return ("ok", out if isinstance(out, str) else out.decode("latin-1"), list(s.errors))
        except serializer.SerializeError:
            return ("SerializeError", list(s.errors))
        except Exception as e:
            return ("raised", type(e).__name__)
    fresh = {c: one(serializer.HTMLSerializer(omit_optional_tags=False), c) for c in calls}
    n = 0
    viol = []
    for k in range(1, depth + 1):
        for seq in itertools.product(range(len(calls)), repeat=k):
            s = serializer.HTMLSerializer(omit_optional_tags=False)
            for i in seq:
                got = one(s, calls[i])
                n += 1
                if got != fresh[calls[i]]:
                    viol.append(engine.Violation(H, {"kind": "serializer-history"}, [list(map(str, calls[j])) for j in seq], fresh[calls[i]], got,
                                                 "reused HTMLSerializer differs from a fresh one", "serializer-reuse"))
                    break
            if viol:
                return n, viol
    return n, viol


# ---- (c) threads ---------------------------------------------------------------------------------------------

FOCUS = ("charsUntil", "getTreeBuilder", "moduleFactory", "getTreeWalker", "has_keys_with_prefix", "longest_prefix", "lookupEncoding",
         "readChunk")


def _mk_body(builder, opi):
    def body():
        return norm(call_with_builder(builder, OPS[opi]))
    return body


def _thread_job(args):
    """one (pair of operations, builder): all schedules with <= 1 preemption at every html5lib call, and with <= 2
    preemptions at the calls that touch module-level mutable state"""
    from mc import sched
    a, b, builder, base = args
    expected = (base["%s:%d" % (builder, a)], base["%s:%d" % (builder, b)])
    bodies = [_mk_body(builder, a), _mk_body(builder, b)]
    n1, bad1 = sched.explore(bodies, expected, bound=1, repo=engine.REPO)
    n2, bad2 = sched.explore(bodies, expected, bound=2, repo=engine.REPO, focus=FOCUS)
    return (a, b, builder, n1 + n2, (bad1 + bad2)[:1], expected)


def thread_part(run, quick):
    pairs = [(0, 17), (6, 19), (9, 3), (20, 0), (27, 28), (3, 3)] if quick else \
        [(a, b) for a in (0, 6, 9, 17, 19, 20, 27) for b in (0, 3, 17, 19, 22, 28)] + [(14, 0), (0, 14)]
    jobs = [(a, b, builder, _BASE) for a, b in pairs for builder in ("dom", "etree")]
    total = 0
    for a, b, builder, n, bad, expected in engine.pmap(_thread_job, jobs, chunksize=1):
        total += n
        for schedule, got in bad:
            run.violation(engine.Violation(H, {"kind": "threads", "builder": builder, "ops": [a, b]}, schedule, expected, got,
                                           "a parse running concurrently in another thread changes the result", "thread-interference"))
    return total


def call_with_builder(builder, op):
    import html5lib
    from html5lib import html5parser
    p = html5lib.HTMLParser(tw.builder(builder, **({"fullTree": True} if builder == "etree" else {})))
    kind, data, container = op
    try:
        d = p.parse(data) if kind == "doc" else p.parseFragment(data, container=container)
    except Exception as e:
        return ("raised", type(e).__name__, str(e)[:80])
    canon = trees.canon_dom(d) if builder == "dom" else trees.canon_etree(d)
    return ("ok", engine.digest(canon), [(e[1], e[0][0], e[0][1]) for e in p.errors], p.documentEncoding)


# ---- (d) factory histories: module-level caches behind getTreeBuilder / getTreeWalker / parse / serialize --------
# Every history runs in its OWN fresh interpreter (a long-lived worker would carry the caches of earlier histories);
# the baseline of an operation is the history consisting of that operation alone.

FPROBE = "<!DOCTYPE html><!--c--><meta charset=utf-8><p a=1>x<svg><a xlink:href=u>y</a></svg><br><a href=javascript:x onclick=y style='color:red;x:y'>z</a>"
FOPS = ["etree", "etree fullTree=True", "etree fullTree=False", "dom", "etree ns=False", "dom ns=False",
        "etree fullTree=True + etree walker", "dom + dom walker", "html5lib.serialize(tree='etree')",
        "etree implementation=ElementTree fullTree=True", "html5lib.parse default", "etree walker implementation=ElementTree",
        "html5lib.parseFragment treebuilder=dom",
        # filters that rewrite the tokens they are handed (sanitizer, meta charset injection, attribute sorting): what the
        # walker hands out must not be shared between calls
        "serialize sanitize=True (etree)", "serialize encoding=shift_jis (etree)", "serialize sanitize=True (dom)",
        "serialize alphabetical_attributes omit_optional_tags=False (etree)"]


def factory_op(k):
    import xml.etree.ElementTree as ET
    import html5lib
    from html5lib import treebuilders, treewalkers

    def toks(walker, d):
        return [[t["type"], t.get("name"), t.get("namespace"),
                 sorted([list(a), v] for a, v in t["data"].items()) if isinstance(t.get("data"), dict) else t.get("data")]
                for t in walker(d)]

    def parsed(tb, ns=True):
        p = html5lib.HTMLParser(tb, namespaceHTMLElements=ns)
        d = p.parse(FPROBE)
        return p, d
    if k in (0, 1, 2, 3, 4, 5, 9):
        tb = {0: lambda: treebuilders.getTreeBuilder("etree"), 1: lambda: treebuilders.getTreeBuilder("etree", fullTree=True),
              2: lambda: treebuilders.getTreeBuilder("etree", fullTree=False), 3: lambda: treebuilders.getTreeBuilder("dom"),
              4: lambda: treebuilders.getTreeBuilder("etree"), 5: lambda: treebuilders.getTreeBuilder("dom"),
              9: lambda: treebuilders.getTreeBuilder("etree", implementation=ET, fullTree=True)}[k]()
        p, d = parsed(tb, ns=k not in (4, 5))
        return [type(d).__name__, p.tree.testSerializer(d)]
    if k == 6:
        p, d = parsed(treebuilders.getTreeBuilder("etree", fullTree=True))
        return toks(treewalkers.getTreeWalker("etree"), d)
    if k == 7:
        p, d = parsed(treebuilders.getTreeBuilder("dom"))
        return toks(treewalkers.getTreeWalker("dom"), d)
    if k == 8:
        return html5lib.serialize(html5lib.parse(FPROBE), tree="etree")
    if k == 10:
        d = html5lib.parse(FPROBE)
        return [type(d).__name__, getattr(d, "tag", None), len(list(d.iter()))]
    if k == 11:
        p, d = parsed(treebuilders.getTreeBuilder("etree", fullTree=True))
        return toks(treewalkers.getTreeWalker("etree", implementation=ET), d)
    if k == 13:
        return html5lib.serialize(html5lib.parse(FPROBE), tree="etree", sanitize=True)
    if k == 14:
        return html5lib.serialize(html5lib.parse(FPROBE), tree="etree", encoding="shift_jis").decode("shift_jis")
    if k == 15:
        return html5lib.serialize(html5lib.parse(FPROBE, treebuilder="dom"), tree="dom", sanitize=True)
    if k == 16:
        return html5lib.serialize(html5lib.parse(FPROBE), tree="etree", alphabetical_attributes=True, omit_optional_tags=False)
    if k == 12:
        d = html5lib.parseFragment("<td>x", container="tr", treebuilder="dom")
        return [type(d).__name__, d.toxml()]
    raise ValueError(k)


def _factory_history(word):
    code = r'''
import sys, json
sys.path.insert(0, %r); sys.path.insert(0, %r)
from mc import engine; engine.use_repo()
from checks import c12_reuse as c
out = []
for k in %r:
    try:
        out.append(c.factory_op(k))
    except Exception as e:
        out.append(["raised", type(e).__name__, str(e)[:100]])
print(json.dumps(out))
''' % (engine.VERIF_DIR, engine.REPO, list(word))
    env = dict(os.environ)
    env["PYTHONHASHSEED"] = "0"
    r = subprocess.run([sys.executable, "-c", code], capture_output=True, text=True, env=env, timeout=120)
    if r.returncode != 0:
        return word, [["interpreter-failed", r.stderr[-300:]]]
    return word, json.loads(r.stdout.strip().splitlines()[-1])


def factory_histories(depth):
    import itertools
    n = len(FOPS)
    base = {}
    for word, obs in engine.pmap(_factory_history, [(k,) for k in range(n)], chunksize=1):
        base[word[0]] = obs[0]
    viol = {}
    count = n
    words = [w for m in range(2, depth + 1) for w in itertools.product(range(n), repeat=m)]
    for word, obs in engine.pmap(_factory_history, words, chunksize=1):
        count += 1
        for i, k in enumerate(word):
            if i >= len(obs) or obs[i] != base[k]:
                cls = "factory-history:%s" % FOPS[k].split()[0]
                case = [FOPS[x] for x in word[:i + 1]]
                if cls not in viol or len(case) < len(viol[cls].case):
                    viol[cls] = engine.Violation(H, {"kind": "factory"}, case, base[k], obs[i] if i < len(obs) else None,
                                                 "'%s' after %s gives a different result than in a fresh interpreter" % (
                                                     FOPS[k], " ; ".join(repr(FOPS[x]) for x in word[:i]) or "nothing"), cls)
                break
    return count, list(viol.values())


def execute(config, case):
    if config.get("kind") == "factory":
        word = tuple(FOPS.index(x) for x in case)
        _, obs = _factory_history(word)
        _, b = _factory_history(word[-1:])
        if obs[-1] == b[0]:
            return None
        return engine.Violation(H, config, case, b[0], obs[-1], "factory history result differs from a fresh interpreter's", "factory-history")
    global _BASE
    if not _BASE:
        _BASE, _ = compute_baselines()
    if config.get("kind") == "history":
        builder = config["builder"]
        L = letters()
        word = []
        extra = None
        for h in case:
            if "abort_read" in h:
                extra = tuple(h["abort_read"])
            elif "op" in h:
                word.append(L.index(("op", h["op"])))
            elif "strict" in h:
                word.append(L.index(("strict", h["strict"])))
        v, _ = run_history(builder, tuple(word), extra_first=extra)
        return v
    return None


def replay(harness, config, case):
    return execute(config, case)


def run(run):
    global _BASE
    quick = run.tier == "quick"
    only = os.environ.get("VERIF_PARTS", "a,b,ser,d,c").split(",")
    engine.close_pool()
    _BASE, base2 = compute_baselines()
    if _BASE != base2:
        diff = [k for k in _BASE if _BASE[k] != base2.get(k)]
        run.violation(engine.Violation(H, {"kind": "hashseed"}, diff[:5], "same result", "differs", "the result of a fresh parse depends on PYTHONHASHSEED",
                                       "hash-seed-dependence"))
    classes = {}
    if "a" in only:
        depth = 2 if quick else 3
        tot_s = tot_t = 0
        for builder in ("dom", "etree"):
            res = engine.product_bfs(step, len(letters()), depth, ctx=(builder,))
            tot_s += res.states
            tot_t += res.transitions
            for v in res.violations:
                if v.diff_class not in classes or len(v.case) < len(classes[v.diff_class].case):
                    classes[v.diff_class] = v
        run.set("states", tot_s)
        run.set("transitions", tot_t)
        run.set("traces_validated_against_impl", tot_t)
        run.set("history_depth", depth)
    if "b" in only:
        shards = [(b, i) for b in ("dom", "etree") for i in ABORTABLE]
        for r in engine.pmap(_abort_shard, shards, chunksize=1):
            run.add("abort_histories", r["evals"])
            for cls, v in r["viol"].items():
                if cls not in classes or len(v.case) < len(classes[cls].case):
                    classes[cls] = v
    if "ser" in only:
        n, viol = serializer_histories(2 if quick else 3)
        run.set("serializer_history_calls", n)
        for v in viol:
            classes.setdefault(v.diff_class, v)
    if "d" in only:
        n, viol = factory_histories(2 if quick else 3)
        run.set("factory_histories_each_in_a_fresh_interpreter", n)
        for v in viol:
            classes.setdefault(v.diff_class, v)
    for v in classes.values():
        run.violation(v)
    if "c" in only:
        engine.close_pool()
        run.set("thread_schedules", thread_part(run, quick))
    if "states" not in run.cov:
        run.set("states", 1)
        run.set("transitions", 1)
        run.set("traces_validated_against_impl", 1)
    run.set("operations", [list(map(str, describe(o))) for o in OPS])
    run.sample([{"strict": 0}, {"op": 11}])
    run.sample([{"abort_read": [0, 9]}, {"op": 10}])
    run.set("exhaustive", True)
    return run.finish("model_checking")
