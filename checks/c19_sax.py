"""C19 - the SAX adapter delivers a well-nested event stream equal to the tree.

Same exploration as C11 (BFS over markup themes, key = parser state + complete final tree).  For every
explored word, each walker stream (etree / dom, document / root / fragment start nodes, namespacing
on/off) is pushed through treeadapters.sax.to_sax into a recording ContentHandler.
Oracle: event grammar (one startDocument/endDocument pair, balanced prefix mappings outside the element
events, properly nested startElementNS/endElementNS with equal names, characters in order) and
tree rebuilt from the events == direct traversal minus comments and doctype.
"""
from xml.sax.handler import ContentHandler

from mc import engine, trees
from checks import c11_walkers as c11

H = "c19_sax"


class Recorder(ContentHandler):
    def __init__(self):
        self.ev = []

    def startDocument(self):
        self.ev.append(("startDocument",))

    def endDocument(self):
        self.ev.append(("endDocument",))

    def startPrefixMapping(self, prefix, uri):
        self.ev.append(("startPrefixMapping", prefix, uri))

    def endPrefixMapping(self, prefix):
        self.ev.append(("endPrefixMapping", prefix))

    def startElementNS(self, name, qname, attrs):
        items = []
        for k in attrs.getNames():
            items.append((k, attrs.getValue(k)))
        qn = {}
        for k, _ in items:
            try:
                qn[k] = attrs.getQNameByName(k)
            except KeyError:
                qn[k] = None
        self.ev.append(("startElementNS", name, qname, tuple(items), qn))

    def endElementNS(self, name, qname):
        self.ev.append(("endElementNS", name, qname))

    def characters(self, content):
        self.ev.append(("characters", content))

    def ignorableWhitespace(self, content):
        self.ev.append(("ignorableWhitespace", content))

    def processingInstruction(self, target, data):
        self.ev.append(("processingInstruction", target, data))

    def skippedEntity(self, name):
        self.ev.append(("skippedEntity", name))


def strip(tree):
    """drop comments and doctype (omitted by design)"""
    out = []
    for n in tree:
        if n[0] in ("comment", "doctype"):
            continue
        if n[0] == "elem":
            out.append(("elem", n[1], n[2], n[3], strip(n[4])))
        else:
            out.append(n)
    return trees._merge(out)


def check_events(ev):
    """-> (problem | None, rebuilt tree)"""
    if not ev or ev[0] != ("startDocument",) or ev[-1] != ("endDocument",):
        return "startDocument/endDocument not first/last", None
    if sum(1 for e in ev if e[0] in ("startDocument", "endDocument")) != 2:
        return "more than one startDocument/endDocument", None
    body = ev[1:-1]
    i = 0
    started = []
    bound = {}
    while i < len(body) and body[i][0] == "startPrefixMapping":
        started.append(body[i][1])
        bound[body[i][1]] = body[i][2]
        i += 1
    j = len(body)
    ended = []
    while j > i and body[j - 1][0] == "endPrefixMapping":
        ended.append(body[j - 1][1])
        j -= 1
    if sorted(started, key=repr) != sorted(ended, key=repr):
        return "prefix mappings not balanced: %r vs %r" % (started, ended), None
    root = []
    stack = [(None, root)]
    for e in body[i:j]:
        if e[0] == "startElementNS":
            kids = []
            name = e[1]
            if not (isinstance(name, tuple) and len(name) == 2):
                return "element name is not a (namespace, local) pair", None
            for k, q in e[4].items():
                if k[0] is not None and q is not None and q.split(":")[-1] != k[1]:
                    return "qname %r does not match attribute %r" % (q, k), None
                if k[0] is not None and q is not None and ":" in q and bound.get(q.split(":")[0]) != k[0]:
                    # (the prefix mappings are part of the event stream: a qname whose prefix is bound to another
                    # namespace than the attribute's makes the stream inconsistent for every namespace-aware consumer)
                    return "attribute %r is delivered with qname %r but prefix %r is bound to %r" % (k, q, q.split(":")[0], bound.get(q.split(":")[0])), None
            stack[-1][1].append(["elem", name[0], name[1], e[3], kids])
            stack.append((name, kids))
        elif e[0] == "endElementNS":
            if len(stack) == 1:
                return "endElementNS without open element", None
            if stack[-1][0] != e[1]:
                return "endElementNS %r does not match open element %r" % (e[1], stack[-1][0]), None
            stack.pop()
        elif e[0] == "characters":
            stack[-1][1].append(("text", e[1]))
        else:
            return "unexpected event %s inside the document" % e[0], None
    if len(stack) != 1:
        return "unclosed element %r at endDocument" % (stack[-1][0],), None

    def freeze(nodes):
        out = []
        for n in nodes:
            if isinstance(n, list):
                out.append(("elem", n[1], n[2], n[3], freeze(n[4])))
            else:
                out.append(n)
        return trees._merge(out)
    return None, freeze(root)


def judge(text, container):
    from html5lib.treeadapters import sax
    for ns in (True, False):
        built = c11.build_all(text, container, ns)
        for kind, (walker, node, canon) in built.items():
            rec = Recorder()
            try:
                sax.to_sax(c11.walk(walker, node), rec)
            except Exception as e:
                return ("to_sax raised %s on the %s stream: %s" % (type(e).__name__, kind, str(e)[:80]), "%s:raised" % kind, None, None)
            p, rb = check_events(rec.ev)
            if p:
                return ("%s: %s" % (kind, p), "%s:grammar" % kind, None, [list(map(repr, e[:3])) for e in rec.ev][:30])
            exp = trees.sort_attrs(strip(canon))
            got = trees.sort_attrs(rb)
            if exp != got:
                return ("tree rebuilt from the SAX events of the %s stream differs from the tree" % kind, "%s:rebuild" % kind, exp, got)
    return None


def step(ctx, word):
    k, o, v = c11.step(ctx, word, judge_fn=judge)
    if v is not None:
        v.harness = H
    return (k, o, v)


def execute(config, case):
    j = judge(case, config.get("container"))
    if j is None:
        return None
    return engine.Violation(H, config, case, j[2], j[3], j[0], j[1])


def replay(harness, config, case):
    return execute(config, case)


def _sweep_shard(texts):
    out = []
    for w in texts:
        j = judge(w, None)
        out.append(None if j is None else engine.Violation(H, {"theme": "tables", "container": None}, w, j[2], j[3], j[0], "tables:" + j[1]))
    return out


def run(run):
    c11.explore(run, step, run.tier == "quick")
    for w in c11.WITNESSES + ["<svg><a xlink:href=x xml:lang=y xmlns:xlink=z>t</a><br/></svg>", "<math definitionurl=a><mi>"]:
        for container in (None, "div"):
            run.add("witness_words")
            j = judge(w, container)
            if j is not None:
                run.violation(engine.Violation(H, {"theme": "witness", "container": container}, w, j[2], j[3], j[0], j[1]))
    # every entry of the standard's foreign-attribute / SVG fix-up tables, every foreign scoping element (flat sweep)
    from checks import treewords as tw
    cases = tw.foreign_cases()
    for vs in engine.pmap(_sweep_shard, [cases[i:i + 40] for i in range(0, len(cases), 40)], chunksize=1):
        for v in vs:
            run.add("table_sweep_words")
            if v is not None:
                run.violation(v)
    run.set("streams_per_word", 12)
    return run.finish("model_checking")
