"""C06 - byte input is decoded with the encoding the documented precedence selects.

(a) FE over a complete finite configuration space: each of the five *_encoding arguments in
    {absent, iso-8859-2, koi8-r, bogus, utf-16le} (5^5) x BOM in {none, UTF-8, UTF-16LE, UTF-16BE, FF FE 00 00}
    x body variants (no meta / early meta charset / early http-equiv form / late meta past byte 1024 /
    meta only in a comment / meta declaring UTF-16 / invalid label then valid / late meta equal to the
    tentative encoding / late "meta" inside textarea / http-equiv without charset).
    Oracle: documentEncoding == reference precedence function; returned tree == html5lib's parse of the
    bytes decoded (by Python's codec) with the reported encoding; a certain encoding is never changed.
(b) the prescan itself: ALL byte words <= D over 24 macro-letters (from the empty prefix and from seeds),
    real HTMLBinaryInputStream.detectEncodingMeta() vs ref/prescan.py.
"""
import itertools
import os

from mc import engine, trees
from checks import treewords as tw
from ref import prescan as refp

H = "c06_encoding"

ARGS = ["override_encoding", "transport_encoding", "same_origin_parent_encoding", "likely_encoding", "default_encoding"]
VALUES = [None, "iso-8859-2", "koi8-r", "bogus", "utf-16le"]
BOMS = {"none": b"", "utf-8": b"\xef\xbb\xbf", "utf-16le": b"\xff\xfe", "utf-16be": b"\xfe\xff", "utf-16le+nul": b"\xff\xfe\x00\x00"}
FILL = b"<!--" + b"x" * 1100 + b"-->"
TEXT = "zażółć я".encode("utf-8")      # non-ASCII bytes so that a wrong decoder changes the tree

# name -> (bytes, prescan result, label met by tree construction ("late") or None)
BODIES = {
    "nometa": (b"<p>" + TEXT, None, None),
    "early-charset": (b"<meta charset=windows-1251><p>" + TEXT, "windows-1251", "windows-1251"),
    "early-pragma": (b'<meta http-equiv="Content-Type" content="text/html; charset=windows-1251"><p>' + TEXT, "windows-1251", "windows-1251"),
    "late-charset": (FILL + b"<meta charset=windows-1251><p>" + TEXT, None, "windows-1251"),
    "late-pragma": (FILL + b'<meta content="text/html; charset=windows-1251" http-equiv=content-type><p>' + TEXT, None, "windows-1251"),
    "late-pragma-caps": (FILL + b'<meta http-equiv="Content-Type" content="text/html; charset=windows-1251"><p>' + TEXT, None, "windows-1251"),
    "late-pragma-upper": (FILL + b'<META CONTENT="text/html;CHARSET=WINDOWS-1251" HTTP-EQUIV=CONTENT-TYPE><p>' + TEXT, None, "windows-1251"),
    "late-charset-upper": (FILL + b"<META CHARSET='WINDOWS-1251'><p>" + TEXT, None, "windows-1251"),
    "late-in-body": (FILL + b"<p><meta charset=windows-1251>" + TEXT, None, "windows-1251"),
    "comment-only": (b"<!-- <meta charset=windows-1251> --><p>" + TEXT, None, None),
    "early-utf16": (b"<meta charset=utf-16><p>" + TEXT, "utf-8", "utf-16"),
    "late-utf16": (FILL + b"<meta charset=utf-16be><p>" + TEXT, None, "utf-16be"),
    "invalid-then-valid": (b"<meta charset=bogus><meta charset=windows-1251><p>" + TEXT, "windows-1251", "windows-1251"),
    "late-in-textarea": (FILL + b"<textarea><meta charset=windows-1251></textarea><p>" + TEXT, None, None),
    "pragma-no-charset": (b'<meta http-equiv=content-type content="text/html"><p>' + TEXT, None, None),
    "late-koi8": (FILL + b"<meta charset=koi8-r><p>" + TEXT, None, "koi8-r"),
    "late-bogus": (FILL + b"<meta charset=bogus><p>" + TEXT, None, None),
    "late-beyond-first-chunk": (b"<!--" + b"x" * 11000 + b"-->" + b"<p>a</p>" * 300 + b"<meta charset=koi8-r><p>" + TEXT, None, "koi8-r"),
    # several declarations met by tree construction: the first usable one decides (it either changes the encoding or
    # confirms the tentative one - both make it certain), later ones are ignored
    "early-then-conflict": (b"<meta charset=windows-1251><meta charset=koi8-r><p>" + TEXT, "windows-1251", ("windows-1251", "koi8-r")),
    "late-koi8-then-1251": (FILL + b"<meta charset=koi8-r><meta charset=windows-1251><p>" + TEXT, None, ("koi8-r", "windows-1251")),
    "late-latin2-pragma-then-koi8": (FILL + b"<meta http-equiv=content-type content='text/html; charset=iso-8859-2'><meta charset=koi8-r><p>" + TEXT,
                                     None, ("iso-8859-2", "koi8-r")),
    "late-bogus-then-koi8": (FILL + b"<meta charset=bogus><meta charset=koi8-r><p>" + TEXT, None, ("bogus", "koi8-r")),
    # the prescan does not tokenize: what it finds inside RCDATA / raw text is only a tentative guess, the first real
    # <meta> met by tree construction overrides it
    "prescan-in-title-then-real": (b"<title><meta charset=koi8-r></title><meta charset=windows-1251><p>" + TEXT, "koi8-r", ("windows-1251",)),
    "prescan-in-script-then-real": (b"<script>'<meta charset=koi8-r>'</script><meta charset=iso-8859-2><p>" + TEXT, "koi8-r", ("iso-8859-2",)),
}


def valid(label):
    return label is not None and refp.get_encoding(label) is not None


def expected_encoding(args, bom, body):
    """-> (name, certain?) per the documented precedence"""
    data, prescan, late = BODIES[body]
    if bom in ("utf-8", "utf-16le", "utf-16be"):
        return bom, True, "bom"
    if bom == "utf-16le+nul":
        return "utf-16le", True, "bom"
    if valid(args["override_encoding"]):
        return refp.get_encoding(args["override_encoding"]), True, "override"
    if valid(args["transport_encoding"]):
        return refp.get_encoding(args["transport_encoding"]), True, "transport"
    tentative = None
    if prescan is not None:
        tentative = prescan
    elif valid(args["same_origin_parent_encoding"]) and not refp.get_encoding(args["same_origin_parent_encoding"]).startswith("utf-16"):
        tentative = refp.get_encoding(args["same_origin_parent_encoding"])
    elif valid(args["likely_encoding"]):
        tentative = refp.get_encoding(args["likely_encoding"])
    elif valid(args["default_encoding"]):
        tentative = refp.get_encoding(args["default_encoding"])
    else:
        tentative = "windows-1252"
    # tree construction meets a <meta> while the encoding is tentative (only if the tentative decoding is
    # ASCII-compatible, otherwise the markup is not there)
    if late is not None and not tentative.startswith("utf-16"):
        for label in ((late,) if isinstance(late, str) else late):
            new = refp.get_encoding(label)
            if new is not None:
                if new in ("utf-16le", "utf-16be"):
                    new = "utf-8"
                return new, True, "meta-in-tree"
    return tentative, False, "tentative"


class ReadOnlySource(object):
    """a byte source with nothing but read(): html5lib wraps it in its own BufferedStream and has to replay the buffered
    bytes after the BOM check, after the prescan and after a restart; `size` caps what one read returns"""

    def __init__(self, data, size):
        self.data, self.pos, self.size = data, 0, size

    def read(self, n=-1):
        if n is None or n < 0:
            n = len(self.data) - self.pos
        n = min(n, self.size)
        out = self.data[self.pos:self.pos + n]
        self.pos += len(out)
        return out


def run_config(args, bom, body, reads=None):
    import html5lib
    data = BOMS[bom] + BODIES[body][0]
    kw = {k: v for k, v in args.items() if v is not None}
    p = html5lib.HTMLParser(tw.builder("dom"))
    d = p.parse(data if reads is None else ReadOnlySource(data, reads), useChardet=False, **kw)
    return p.documentEncoding, trees.canon_dom(d), data


_DECODED = {}


def tree_of_decoded(data, bom, encname, drop_truncated_tail=False):
    import webencodings
    key = (data, bom, encname, drop_truncated_tail)
    if key not in _DECODED:
        raw = data[len(BOMS[bom]) if bom not in ("none",) else 0:]
        if bom == "utf-16le+nul":
            raw = data[2:]
        enc = webencodings.lookup(encname)
        if drop_truncated_tail:
            text = enc.codec_info.incrementaldecoder("replace").decode(raw, False)
        else:
            text = enc.codec_info.decode(raw, "replace")[0]
        _DECODED[key] = tw.parse_dom(text)
        if len(_DECODED) > 4000:
            _DECODED.clear()
            _DECODED[key] = tw.parse_dom(text)
    return _DECODED[key]


def judge_config(args, bom, body, reads=None):
    try:
        got_enc, got_tree, data = run_config(args, bom, body, reads)
    except Exception as e:
        return ("parse raised %s: %s" % (type(e).__name__, str(e)[:80]), "raised", None, None)
    exp_enc, certain, why = expected_encoding(args, bom, body)
    if got_enc != exp_enc:
        return ("documentEncoding is %s, the precedence selects %s (%s)" % (got_enc, exp_enc, why),
                "encoding:%s:%s" % (why, body if why in ("meta-in-tree", "tentative") else bom if why == "bom" else "args"), exp_enc, got_enc)
    exp_tree = tree_of_decoded(data, bom, got_enc)
    if got_tree != exp_tree and got_tree == tree_of_decoded(data, bom, got_enc, True):
        return ("a truncated multi-byte sequence at the very end of the input is dropped instead of becoming U+FFFD (decoded as %s)" % got_enc,
                "tree:truncated-tail", exp_tree, got_tree)
    if got_tree != exp_tree:
        return ("tree differs from the tree of the bytes decoded as %s" % got_enc, "tree:%s:%s" % (why, body), exp_tree, got_tree)
    return None


def _readonly_shard(jobs):
    out = []
    for bom, body, rd in jobs:
        for a in ({}, {"likely_encoding": "iso-8859-2"}, {"transport_encoding": "koi8-r"}):
            args = dict.fromkeys(ARGS)
            args.update(a)
            j = judge_config(args, bom, body, rd)
            out.append(None if j is None else engine.Violation(H, {"kind": "config", "args": args, "bom": bom, "reads": rd}, body,
                                                               j[2], j[3], j[0], j[1]))
    return out


def _config_shard(args):
    combo_index, = args
    override = VALUES[combo_index // 5]
    transport = VALUES[combo_index % 5]
    res = {"evals": 0, "viol": {}, "distinct": set()}
    for parent, likely, default in itertools.product(VALUES, repeat=3):
        a = dict(zip(ARGS, (override, transport, parent, likely, default)))
        for bom in BOMS:
            for body in BODIES:
                res["evals"] += 1
                j = judge_config(a, bom, body)
                res["distinct"].add(expected_encoding(a, bom, body))
                if j is not None and j[1] not in res["viol"]:
                    res["viol"][j[1]] = ({"kind": "config", "args": a, "bom": bom}, body, j)
    res["distinct"] = len(res["distinct"])
    return res


# ---- (b) prescan ------------------------------------------------------------------------------------

PLET = [b"<meta", b" ", b"charset", b"=", b"koi8-r", b">", b'"', b"'", b"http-equiv", b"content", b"content-type", b"text/html;",
        b";", b"<!--", b"-->", b"<", b"/", b"x", b"</", b"<?", b"<!", b"A", b"utf-16", b"bogus", b"\n",
        b"<meta charset=koi8-r>"]
PSEEDS = [b"", b"<meta ", b"<meta charset=", b'<meta http-equiv=content-type content="', b"<meta content='charset=koi8-r' ", b"<meta charset=bogus ",
          b"<!--", b"<a "]


def impl_prescan(data):
    from html5lib import _inputstream
    s = _inputstream.HTMLBinaryInputStream(data, useChardet=False)
    s.rawStream.seek(0)
    e = s.detectEncodingMeta()
    return None if e is None else e.name


def judge_prescan(data):
    try:
        got = impl_prescan(data)
    except Exception as e:
        return ("prescan raised %s" % type(e).__name__, "prescan-raised:" + type(e).__name__, None, str(e)[:80])
    exp = refp.prescan(data)
    if got != exp:
        return ("prescan finds %s, the standard's algorithm finds %s" % (got, exp), prescan_class(data, exp, got), exp, got)
    return None


def prescan_class(data, exp, got):
    """name the mismatch by the smallest set of html5lib's documented prescan deviations that explains it"""
    combo = refp.classify(data, got)
    if combo is None:
        return "prescan:unexplained:%s->%s" % (exp, got)
    return "prescan-deviation:" + "+".join(combo)


def _prescan_shard(args):
    seed, first, L = args
    res = {"evals": 0, "viol": {}, "found": 0}
    for m in range(0, L + 1):
        for rest in itertools.product(PLET, repeat=m):
            word = seed + first + b"".join(rest)
            for data in (word, word + b">", word + b'">x', word + b"'>"):
                res["evals"] += 1
                j = judge_prescan(data)
                if refp.prescan(data) is not None:
                    res["found"] += 1
                if j is not None and (j[1] not in res["viol"] or len(data) < len(res["viol"][j[1]][0])):
                    res["viol"][j[1]] = (data, j)
    return res


def execute(config, case):
    if config.get("kind") == "prescan":
        j = judge_prescan(case)
    else:
        j = judge_config(config["args"], config["bom"], case, config.get("reads"))
    if j is None:
        return None
    return engine.Violation(H, config, case, j[2], j[3], j[0], j[1])


def replay(harness, config, case):
    return execute(config, case)


def run(run):
    quick = run.tier == "quick"
    only = os.environ.get("VERIF_PARTS", "a,b").split(",")
    classes = {}
    if "a" in only:
        distinct = 0
        for r in engine.pmap(_config_shard, [(i,) for i in range(25)], chunksize=1):
            run.add("evaluations", r["evals"])
            distinct = max(distinct, r["distinct"])
            for cls, (cfg, body, j) in r["viol"].items():
                if cls not in classes:
                    classes[cls] = engine.Violation(H, cfg, body, j[2], j[3], j[0], cls)
        # the same precedence through a source that can only be read (no seek/tell), with read sizes 1, 3, 1000 and unlimited
        jobs = [(b, body, rd) for b in BOMS for body in BODIES for rd in (1, 3, 1000, 1 << 30)]
        for vs in engine.pmap(_readonly_shard, [jobs[i:i + 12] for i in range(0, len(jobs), 12)], chunksize=1):
            for v in vs:
                run.add("evaluations")
                run.add("read_only_source_parses")
                if v is not None and v.diff_class not in classes:
                    classes[v.diff_class] = v
        run.set("configurations", run.cov.get("evaluations", 0))
        run.sample({"args": {"transport_encoding": "koi8-r"}, "bom": "none", "body": "late-charset"})
    if "b" in only:
        L = 4 if quick else 5
        # (seed, first letter, max further letters); the thorough tier goes one letter deeper from the empty prefix only
        # (one level deeper from all 8 seeds is 380 M prescans: hours)
        shards = [(s, f, (L - 1) if s == b"" else 3) for s in PSEEDS for f in PLET]
        for r in engine.pmap(_prescan_shard, shards, chunksize=1):
            run.add("evaluations", r["evals"])
            run.add("prescan_inputs", r["evals"])
            run.add("prescan_inputs_with_a_declaration", r["found"])
            for cls, (data, j) in r["viol"].items():
                if cls not in classes or len(data) < len(classes[cls].case):
                    classes[cls] = engine.Violation(H, {"kind": "prescan"}, data, j[2], j[3], j[0], cls)
        run.sample({"prescan": "<meta charset=koi8-r>"})
    for v in classes.values():
        run.violation(v)
    run.set("distinct_nontrivial", run.cov.get("prescan_inputs_with_a_declaration", 0) + run.cov.get("configurations", 0))
    run.set("rule", "(a) the full cross product 5^5 argument assignments x 5 BOM variants x %d body variants, every one parsed; "
            "(b) all byte words of length <= %d over %d prescan macro-letters from the empty prefix (one shorter from %d seed prefixes); "
            "non-trivial = configurations + prescan inputs in which the reference finds a declaration" % (
                len(BODIES), 4 if quick else 5, len(PLET), len(PSEEDS) - 1))
    run.set("exhaustive", True)
    run.assumptions += ["webencodings.lookup is the label table (third-party, not html5lib code)", "Python codecs decode correctly",
                        "chardet is not installed; useChardet=False"]
    return run.finish("exploration")
